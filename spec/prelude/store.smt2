; rootmulti commit keys: the key of the commit info of version v ("s/<v>", fmt.Sprintf) as a function of v
(declare-fun cinfo_key (Int) Str)
(assert (! (forall ((v Int) (w Int)) (! (=> (= (cinfo_key v) (cinfo_key w)) (= v w)) :pattern ((cinfo_key v) (cinfo_key w)))) :named cinfo_key_injective))
; the int64 a length-prefixed amino encoding carries (a function of the byte slice handed over)
(declare-fun amino_i64 (Slice) Int)
; time.Time (heap mode: an opaque token for the whole value): its instant; whether its Location is UTC;
; the text time.Format produces for an instant shown in UTC
(declare-fun t_inst (Int) Int)
(declare-fun t_utc (Int) Bool)
(declare-fun time_fmt_utc (Int Str) Str)
; equality of two public keys as decided by the key's own Equals (uninterpreted)
(declare-fun pk_equal_s (Iface Iface) Bool)
; a message's type name and the base fee of that type (sdk.Msg.Type / GetFee; uninterpreted)
(declare-fun msg_type_s (Iface) Str)
(declare-fun msg_basefee_s (Iface) Int)
; the immutable name of a store key
(declare-fun sk_name (Iface) Str)
