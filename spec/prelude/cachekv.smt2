; ---- store/cachekv merge iterator (spec functions only: pure definitions, no axioms)
; cmpdir: iter.compare - bytes.Compare, negated for a descending iterator
(define-fun cmpdir ((asc Bool) (a Bytes) (b Bytes)) Int (ite asc (bytes_cmp a b) (- (bytes_cmp a b))))
; mexists: the current item of the merge of parent (cursor p of lp, keys kp) and cache (cursor c of lc, keys kc,
; values vc; a nil value is a delete marker) exists
(define-fun mexists ((asc Bool) (p Int) (lp Int) (c Int) (lc Int) (kp (Array Int Bytes)) (kc (Array Int Bytes)) (vc (Array Int Bytes))) Bool
  (or (and (< p lp) (or (= c lc) (< (cmpdir asc (select kp p) (select kc c)) 0)))
      (and (< c lc) (not (= (select vc c) bytes_nil)) (or (= p lp) (>= (cmpdir asc (select kp p) (select kc c)) 0)))))
; mcache: the current item is taken from the cache (the cache wins ties)
(define-fun mcache ((asc Bool) (p Int) (lp Int) (c Int) (lc Int) (kp (Array Int Bytes)) (kc (Array Int Bytes))) Bool
  (and (< c lc) (or (= p lp) (>= (cmpdir asc (select kp p) (select kc c)) 0))))
