package main

// Evaluation of specification expressions to SMT terms.

import (
	"strconv"
	"fmt"
	"sort"
	"go/constant"
	"go/types"
	"math/big"
	"strings"
)

type SpecEnv struct {
	vc    *VC
	vars  map[string]SV
	cur   *State
	old   *State
	pkg   *types.Package
	bound map[string]SV
	mode  Mode
	pol   int // polarity of the position being evaluated: +1, -1, 0 (unknown)
	role  int // 0 plain, 1 goal (positive foralls are skolemised), 2 hypothesis (foralls are registered for instantiation)
	path  []T // antecedents enclosing the current position
	con   *Contract // contract whose clauses are being evaluated (for `define`d functions)
	app   int       // id of its application (0: the function's own contract)
	entryVars map[string]SV // loop environments: old(x) of a (reassigned) parameter is its value at function entry
	loopAlloc T // loop environments: the allocation counter when the loop was first entered (loopfresh)
}

type qhyp struct {
	e    *Expr
	env  *SpecEnv
	path []T
}

func (env *SpecEnv) flip() *SpecEnv {
	n := *env
	n.pol = -env.pol
	return &n
}

func (env *SpecEnv) nopol() *SpecEnv {
	n := *env
	n.pol = 0
	return &n
}

func (env *SpecEnv) under(a T) *SpecEnv {
	n := *env
	n.path = append(append([]T{}, env.path...), a)
	return &n
}

// evalGoal evaluates a proof goal: universally quantified variables in positive positions
// become skolem constants, and instances of the registered quantified hypotheses at the
// goal's index terms are collected as hints for the obligation created next.
func (vc *VC) evalGoal(e *Expr, env *SpecEnv) T {
	n := *env
	n.role, n.pol, n.path = 1, 1, nil
	vc.goalSk, vc.goalIdx = nil, nil
	t := vc.evalSpec(e, &n).t
	vc.collectHints()
	return t
}

// evalHyp evaluates an assumption made under `guard`.
func (vc *VC) evalHyp(e *Expr, env *SpecEnv, guard T) T {
	n := *env
	n.role, n.pol, n.path = 2, 1, nil
	if guard != tTrue {
		n.path = []T{guard}
	}
	return vc.evalSpec(e, &n).t
}

func (vc *VC) collectHints() {
	vc.pendingHints = nil
	if vc.dry {
		return
	}
	bySort := map[string][]T{}
	seen := map[T]bool{}
	add := func(t T, srt string) {
		if seen[t] || strings.Contains(t, "q_") || len(bySort[srt]) >= 8 {
			return
		}
		seen[t] = true
		bySort[srt] = append(bySort[srt], t)
	}
	for _, t := range vc.goalSk {
		add(t, "Int")
	}
	for _, ts := range vc.goalIdx {
		add(ts[0], ts[1])
	}
	hs := vc.qhyps
	if len(hs) > 60 {
		// keep the entry assumptions (first) and the most recent ones
		hs = append(append([]qhyp{}, hs[:20]...), hs[len(hs)-40:]...)
	}
	seenI := map[T]bool{}
	for _, q := range hs {
		// candidate tuples
		tuples := [][]T{{}}
		ok := true
		for _, v := range q.e.Vars {
			srt := specSort(v[1])
			if srt == "byte" || srt == "nat" {
				srt = "Int"
			}
			cands := bySort[srt]
			if len(cands) == 0 {
				ok = false
				break
			}
			var next [][]T
			for _, tu := range tuples {
				for _, c := range cands {
					if len(next) >= 24 {
						break
					}
					next = append(next, append(append([]T{}, tu...), c))
				}
			}
			tuples = next
		}
		if !ok {
			continue
		}
		for _, tu := range tuples {
			n := q.env
			var ranges []T
			for i, v := range q.e.Vars {
				srt := specSort(v[1])
				sv := SV{t: tu[i], srt: srt}
				switch srt {
				case "byte":
					sv.srt = "Int"
					ranges = append(ranges, inRange(tu[i], "0", "255"))
				case "nat":
					sv.srt = "Int"
					ranges = append(ranges, le("0", tu[i]))
				}
				n = n.bind(v[0], sv)
			}
			n.role, n.pol = 0, 0
			body := implies(and(ranges...), vc.evalSpec(q.e.Args[0], n).t)
			inst := implies(and(q.path...), body)
			if inst != tTrue && !seenI[inst] {
				seenI[inst] = true
				vc.pendingHints = append(vc.pendingHints, inst)
			}
			if len(vc.pendingHints) >= 300 {
				return
			}
		}
	}
}

func (env *SpecEnv) withOld() *SpecEnv {
	n := *env
	n.cur = env.old
	return &n
}

func (env *SpecEnv) bind(name string, v SV) *SpecEnv {
	n := *env
	n.bound = map[string]SV{}
	for k, x := range env.bound {
		n.bound[k] = x
	}
	n.bound[name] = v
	return &n
}

func specSort(s string) string {
	switch s {
	case "int", "Int":
		return "Int"
	case "bool", "Bool":
		return "Bool"
	case "string", "Str":
		return "Str"
	case "ByteArr":
		return "(Array Int Int)" // a Go byte array ([N]byte) as a value
	}
	return s
}

func (sv SV) sortIn(vc *VC) string {
	if sv.typ != nil {
		return vc.sortOf(sv.typ)
	}
	return sv.srt
}

func mathInt(t T) SV  { return SV{t: t, srt: "Int"} }
func mathBool(t T) SV { return SV{t: t, srt: "Bool"} }

func (vc *VC) evalBool(e *Expr, env *SpecEnv) T {
	v := vc.evalSpec(e, env)
	return v.t
}

func (vc *VC) evalSpec(e *Expr, env *SpecEnv) SV {
	switch e.Op {
	case "num":
		return mathInt(e.Name)
	case "str":
		return SV{t: vc.strLit(e.Name), srt: "Str"}
	case "old":
		if a := e.Args[0]; a.Op == "ident" && env.entryVars != nil {
			if _, isBound := env.bound[a.Name]; !isBound {
				if v, ok := env.entryVars[a.Name]; ok {
					return v
				}
			}
		}
		return vc.evalSpec(e.Args[0], env.withOld())
	case "ident":
		return vc.evalIdent(e.Name, env)
	case "unop":
		ue := env
		if e.Name == "!" {
			ue = env.flip()
		} else {
			ue = env.nopol()
		}
		x := vc.evalSpec(e.Args[0], ue)
		switch e.Name {
		case "!":
			return mathBool(not(x.t))
		case "-":
			return mathInt(app("-", x.t))
		case "*":
			return vc.derefSpec(x, env)
		}
	case "binop":
		return vc.evalBinop(e, env)
	case "quant":
		allInt := true
		for _, v := range e.Vars {
			switch specSort(v[1]) {
			case "Int", "byte", "nat":
			default:
				allInt = false
			}
		}
		if env.role == 1 && env.pol > 0 && e.Name == "forall" && (allInt || !vc.dry) {
			// skolemise
			n := env
			var ranges []T
			for _, v := range e.Vars {
				srt := specSort(v[1])
				if srt == "byte" || srt == "nat" || srt == "int" {
					srt = "Int"
				}
				vc.needSort(srt)
				sk := vc.fresh("sk_"+v[0], srt)
				if srt == "Int" {
					vc.goalSk = append(vc.goalSk, sk)
				}
				switch specSort(v[1]) {
				case "byte":
					ranges = append(ranges, inRange(sk, "0", "255"))
				case "nat":
					ranges = append(ranges, le("0", sk))
				}
				n = n.bind(v[0], SV{t: sk, srt: srt})
			}
			body := vc.evalSpec(e.Args[0], n).t
			return mathBool(implies(and(ranges...), body))
		}
		if env.role == 2 && env.pol > 0 && e.Name == "forall" && len(e.Vars) <= 2 && !vc.dry {
			cp := *env
			cp.role, cp.pol = 0, 0
			// the hypothesis speaks about the state at the point where it is assumed: snapshot it (the
			// executing state is mutated in place afterwards)
			if cp.cur != nil {
				cp.cur = cp.cur.clone()
			}
			if cp.old != nil {
				cp.old = cp.old.clone()
			}
			cpv := make(map[string]SV, len(cp.vars))
			for k, v := range cp.vars {
				cpv[k] = v
			}
			cp.vars = cpv
			vc.qhyps = append(vc.qhyps, qhyp{e: e, env: &cp, path: append([]T{}, env.path...)})
		}
		var extraInst []T
		if env.role == 1 && env.pol < 0 && e.Name == "forall" && allInt && len(e.Vars) == 1 && !vc.dry {
			// a universally quantified hypothesis inside the goal: conjoin instances at the known index terms
			var cands []T
			seenC := map[T]bool{}
			addC := func(t T) {
				if !seenC[t] && !strings.Contains(t, "q_") && len(cands) < 10 {
					seenC[t] = true
					cands = append(cands, t)
				}
			}
			for _, t := range vc.goalSk {
				addC(t)
			}
			for _, ts := range vc.goalIdx {
				if ts[1] == "Int" {
					addC(ts[0])
				}
			}
			for i := len(vc.progIdx) - 1; i >= 0 && i >= len(vc.progIdx)-6; i-- {
				addC(vc.progIdx[i])
			}
			v := e.Vars[0]
			for _, t := range cands {
				nb := env.bind(v[0], SV{t: t, srt: "Int"}).nopol()
				nb.role = 0
				b := vc.evalSpec(e.Args[0], nb).t
				switch specSort(v[1]) {
				case "byte":
					b = implies(inRange(t, "0", "255"), b)
				case "nat":
					b = implies(le("0", t), b)
				}
				extraInst = append(extraInst, b)
			}
		}
		n := env.nopol()
		var binders []string
		var ranges []T
		for _, v := range e.Vars {
			srt := specSort(v[1])
			name := "q_" + v[0]
			sv := SV{t: name, srt: srt}
			// a variable used as the index of a heap slice, s[v]: quantify over the absolute position
			// x = off(s) + v instead, so that the element term is select(row, x) with a plain variable in the
			// index position - a trigger that matches every ground element term (an arithmetic index does not)
			if (srt == "Int" || srt == "int") && !vc.dry {
				if se := sliceIndexedBy(e, v[0]); se != nil && !mentionsAny(se, e.Vars) {
					if s0 := vc.evalSpec(se, env.nopol()); s0.typ != nil && vc.sortOf(s0.typ) == "Slice" {
						sv.t = sub(name, app("s_off", s0.t))
					}
				}
			}
			if srt == "byte" {
				sv.srt = "Int"
				srt = "Int"
				ranges = append(ranges, inRange(name, "0", "255"))
			}
			if srt == "nat" {
				sv.srt = "Int"
				srt = "Int"
				ranges = append(ranges, le("0", name))
			}
			vc.needSort(srt)
			binders = append(binders, "("+name+" "+srt+")")
			n = n.bind(v[0], sv)
		}
		// witness hints `{k == expr}` on an existential goal: the instance at the witness is offered to the solver
		// as an extra disjunct (equivalent formula, easier proof)
		var witnessInst []T
		var realPats []*Expr
		for _, pe := range e.Pat {
			if pe.Op == "binop" && pe.Name == "==" && len(pe.Args) == 2 && pe.Args[0].Op == "ident" && len(e.Vars) == 1 && pe.Args[0].Name == e.Vars[0][0] {
				if e.Name == "exists" && env.role == 1 && env.pol > 0 && !vc.dry {
					w := vc.evalSpec(pe.Args[1], env.nopol())
					nb := env.bind(e.Vars[0][0], SV{t: w.t, srt: "Int"}).nopol()
					nb.role = 0
					witnessInst = append(witnessInst, vc.evalSpec(e.Args[0], nb).t)
				}
				continue
			}
			realPats = append(realPats, pe)
		}
		body := vc.evalSpec(e.Args[0], n).t
		if len(ranges) > 0 {
			if e.Name == "forall" {
				body = implies(and(ranges...), body)
			} else {
				body = and(append(ranges, body)...)
			}
		}
		if len(realPats) > 0 {
			var pats []string
			for _, pe := range realPats {
				pats = append(pats, vc.evalSpec(pe, n).t)
			}
			body = "(! " + body + " :pattern (" + strings.Join(pats, " ") + "))"
		}
		q := "(" + e.Name + " (" + strings.Join(binders, " ") + ") " + body + ")"
		if len(extraInst) > 0 {
			q = and(append([]T{q}, extraInst...)...)
		}
		if len(witnessInst) > 0 {
			q = or(append([]T{q}, witnessInst...)...)
		}
		return mathBool(q)
	case "select":
		return vc.evalSelect(e, env)
	case "index":
		x := vc.evalSpec(e.Args[0], env.nopol())
		i := vc.evalSpec(e.Args[1], env.nopol())
		if env.role == 1 {
			if _, isNum := isNumeral(i.t); !isNum && len(i.t) < 200 {
				vc.goalIdx = append(vc.goalIdx, [2]T{i.t, i.sortIn(vc)})
			}
		}
		return vc.indexSpec(x, i, env)
	case "call":
		return vc.evalCall(e, env)
	case "slice":
		vc.errorf("spec: slice expressions are not supported: %s", e)
		return mathInt("0")
	}
	vc.errorf("spec: cannot evaluate %s", e)
	return mathInt("0")
}

func (vc *VC) evalIdent(name string, env *SpecEnv) SV {
	if v, ok := env.bound[name]; ok {
		return v
	}
	if v, ok := env.vars[name]; ok {
		return v
	}
	switch name {
	case "true":
		return mathBool(tTrue)
	case "false":
		return mathBool(tFalse)
	case "nil":
		return SV{t: "nil", srt: "nil"}
	case "alloc":
		return mathInt(env.cur.alloc)
	}
	g := ghostName(name)
	if _, ok := vc.heapSort[g]; ok && vc.ghost[g] {
		return vc.ghostSV(g, env)
	}
	if srt, ok := vc.heapSort[name]; ok {
		if t := vc.heapElem[name]; t != nil && !vc.heapRows[name] {
			// a cell heap named directly (Hc_...[r]): its cells have that Go type, so fields can be selected by name
			es := vc.sortOf(t)
			vc.eng.mu.Lock()
			if vc.eng.ghostElemType[es] == nil {
				vc.eng.ghostElemType[es] = t
			}
			vc.eng.mu.Unlock()
		}
		return SV{t: vc.heapGet(env.cur, name), srt: srt}
	}
	if env.pkg != nil {
		if obj := env.pkg.Scope().Lookup(name); obj != nil {
			if c, ok := obj.(*types.Const); ok {
				return vc.constSV(c.Val(), c.Type())
			}
			if _, ok := obj.(*types.Var); ok {
				if sp := vc.eng.prog.Package(env.pkg); sp != nil {
					if g := sp.Var(name); g != nil {
						ptr := vc.globalRef(g)
						return SV{t: vc.loadLoc(env.cur, vc.locOf(ptr)), typ: derefType(g.Type())}
					}
				}
			}
		}
	}
	if f, ok := vc.eng.preludeFuncs[name]; ok && len(f.Args) == 0 {
		vc.usePrelude(name)
		return SV{t: name, srt: f.Ret}
	}
	vc.errorf("spec: unknown identifier %q", name)
	return mathInt("0")
}

func ghostName(n string) string { return "g_" + strings.Replace(n, ".", "_", -1) }

func (vc *VC) constSV(v constant.Value, t types.Type) SV {
	switch v.Kind() {
	case constant.Int:
		bi, _ := new(big.Int).SetString(v.ExactString(), 10)
		return mathInt(numBig(bi))
	case constant.Bool:
		if constant.BoolVal(v) {
			return mathBool(tTrue)
		}
		return mathBool(tFalse)
	case constant.String:
		return SV{t: vc.strLit(constant.StringVal(v)), srt: "Str"}
	}
	vc.errorf("spec: unsupported constant %s", v)
	return mathInt("0")
}

func dottedName(e *Expr) (string, bool) {
	switch e.Op {
	case "ident":
		return e.Name, true
	case "select":
		p, ok := dottedName(e.Args[0])
		if !ok {
			return "", false
		}
		return p + "." + e.Name, true
	}
	return "", false
}

func (vc *VC) evalSelect(e *Expr, env *SpecEnv) SV {
	if dn, ok := dottedName(e); ok {
		root := strings.SplitN(dn, ".", 2)[0]
		_, isVar := env.vars[root]
		_, isBound := env.bound[root]
		if !isVar && !isBound {
			g := ghostName(dn)
			if _, ok := vc.heapSort[g]; ok {
				return vc.ghostSV(g, env)
			}
			// package-qualified constant: pkg.Name
			if env.pkg != nil && e.Args[0].Op == "ident" {
				for _, imp := range env.pkg.Imports() {
					if imp.Name() == root {
						if obj := imp.Scope().Lookup(e.Name); obj != nil {
							if c, ok := obj.(*types.Const); ok {
								return vc.constSV(c.Val(), c.Type())
							}
							if _, ok := obj.(*types.Var); ok {
								if sp := vc.eng.prog.Package(imp); sp != nil {
									if g := sp.Var(e.Name); g != nil {
										ptr := vc.globalRef(g)
										return SV{t: vc.loadLoc(env.cur, vc.locOf(ptr)), typ: derefType(g.Type())}
									}
								}
							}
						}
					}
				}
			}
		}
	}
	x := vc.evalSpec(e.Args[0], env)
	return vc.fieldSpec(x, e.Name, env)
}

func (vc *VC) derefSpec(x SV, env *SpecEnv) SV {
	if x.typ == nil {
		vc.errorf("spec: cannot dereference untyped value")
		return x
	}
	pt, ok := x.typ.Underlying().(*types.Pointer)
	if !ok {
		vc.errorf("spec: cannot dereference %s", x.typ)
		return x
	}
	l := vc.locOf(x)
	return SV{t: vc.loadLoc(env.cur, l), typ: pt.Elem()}
}

func (vc *VC) fieldSpec(x SV, name string, env *SpecEnv) SV {
	if x.typ == nil {
		// spec datatype: accessor Sort_field
		acc := x.srt + "_" + name
		if f, ok := vc.eng.preludeFuncs[acc]; ok {
			vc.usePrelude(acc)
			return SV{t: app(acc, x.t), srt: f.Ret}
		}
		vc.errorf("spec: no accessor %s", acc)
		return mathInt("0")
	}
	if _, ok := x.typ.Underlying().(*types.Pointer); ok {
		x = vc.derefSpec(x, env)
	}
	st, ok := x.typ.Underlying().(*types.Struct)
	if !ok {
		vc.errorf("spec: %s has no fields (selecting %s)", x.typ, name)
		return mathInt("0")
	}
	if _, abstract := valueModeSorts[typeKey(x.typ)]; abstract && vc.mode == ValueMode {
		// the representation field of a value-mode abstract type (x.i of an Int): never nil, always fresh
		return SV{t: "absfield", srt: "absfield"}
	}
	s := vc.sortOf(x.typ)
	for i := 0; i < st.NumFields(); i++ {
		if st.Field(i).Name() == name {
			return SV{t: app(fmt.Sprintf("%s_f%d", s, i), x.t), typ: st.Field(i).Type()}
		}
	}
	// promoted through embedded fields (one level)
	for i := 0; i < st.NumFields(); i++ {
		if st.Field(i).Embedded() {
			inner := SV{t: app(fmt.Sprintf("%s_f%d", s, i), x.t), typ: st.Field(i).Type()}
			if ist, ok := derefType(inner.typ).Underlying().(*types.Struct); ok {
				for j := 0; j < ist.NumFields(); j++ {
					if ist.Field(j).Name() == name {
						return vc.fieldSpec(inner, name, env)
					}
				}
			}
		}
	}
	vc.errorf("spec: %s has no field %s", x.typ, name)
	return mathInt("0")
}

func derefType(t types.Type) types.Type {
	if p, ok := t.Underlying().(*types.Pointer); ok {
		return p.Elem()
	}
	return t
}

func (vc *VC) indexSpec(x, i SV, env *SpecEnv) SV {
	if x.typ != nil {
		switch u := x.typ.Underlying().(type) {
		case *types.Slice:
			if vc.sortOf(x.typ) == "Bytes" {
				return mathInt(app("bytes_at", x.t, i.t))
			}
			h := vc.heapGet(env.cur, vc.arrHeap(u.Elem()))
			return SV{t: sel(sel(h, app("s_ref", x.t)), add(app("s_off", x.t), i.t)), typ: u.Elem()}
		case *types.Array:
			return SV{t: sel(x.t, i.t), typ: u.Elem()}
		case *types.Map:
			// Go semantics: the zero value for an absent key (see has(m, k))
			hv, hp, _, _ := vc.mapHeaps(u)
			ik := vc.mapKey(u, i.t)
			present := and(not(eq(x.t, "0")), sel(sel(vc.heapGet(env.cur, hp), x.t), ik))
			return SV{t: ite(present, sel(sel(vc.heapGet(env.cur, hv), x.t), ik), vc.zero(u.Elem())), typ: u.Elem()}
		case *types.Pointer:
			if a, ok := u.Elem().Underlying().(*types.Array); ok {
				d := vc.derefSpec(x, env)
				return SV{t: sel(d.t, i.t), typ: a.Elem()}
			}
		}
		if vc.sortOf(x.typ) == "Bytes" {
			return mathInt(app("bytes_at", x.t, i.t))
		}
		vc.errorf("spec: cannot index %s", x.typ)
		return mathInt("0")
	}
	if x.srt == "Bytes" {
		return mathInt(app("bytes_at", x.t, i.t))
	}
	// (Array K V)
	sx, err := parseSx(x.srt)
	if err == nil && len(sx) == 1 && sx[0].IsList && len(sx[0].List) == 3 && sx[0].List[0].Atom == "Array" {
		vs := sx[0].List[2].String()
		res := SV{t: sel(x.t, i.t), srt: vs}
		if t := vc.eng.ghostElemType[vs]; t != nil {
			res.typ = t
			res.srt = ""
		}
		return res
	}
	vc.errorf("spec: cannot index value of sort %s", x.srt)
	return mathInt("0")
}

func (vc *VC) isStrSV(x SV) bool {
	return x.sortIn(vc) == "Str"
}

func (vc *VC) nilOf(x SV) T {
	if x.t == "interior" && x.loc != nil {
		return tFalse // the address of a field or element is never nil
	}
	s := x.sortIn(vc)
	switch s {
	case "absfield":
		return tFalse
	case "Int":
		return eq(x.t, "0")
	case "Slice":
		return eq(app("s_ref", x.t), "0")
	case "Iface":
		return eq(app("i_type", x.t), "0")
	case "Bytes":
		return eq(x.t, "bytes_nil")
	case "Coins":
		return eq(x.t, "coins_nil")
	}
	vc.errorf("spec: nil comparison on sort %s", s)
	return tFalse
}

func (vc *VC) evalBinop(e *Expr, env *SpecEnv) SV {
	var a, b SV
	switch e.Name {
	case "&&", "||":
		a = vc.evalSpec(e.Args[0], env)
		b = vc.evalSpec(e.Args[1], env)
	case "==>":
		a = vc.evalSpec(e.Args[0], env.flip())
		if a.t == tFalse {
			// statically false guard (boxed(x, "T") on another dynamic type): the consequent is not even typed
			return mathBool(tTrue)
		}
		b = vc.evalSpec(e.Args[1], env.under(a.t))
	default:
		a = vc.evalSpec(e.Args[0], env.nopol())
		b = vc.evalSpec(e.Args[1], env.nopol())
	}
	switch e.Name {
	case "&&":
		return mathBool(and(a.t, b.t))
	case "||":
		return mathBool(or(a.t, b.t))
	case "==>":
		return mathBool(implies(a.t, b.t))
	case "<==>":
		return mathBool(eq(a.t, b.t))
	case "==", "!=":
		var r T
		if a.srt == "nil" {
			r = vc.nilOf(b)
		} else if b.srt == "nil" {
			r = vc.nilOf(a)
		} else {
			r = eq(a.t, b.t)
		}
		if e.Name == "!=" {
			r = not(r)
		}
		return mathBool(r)
	case "<", "<=", ">", ">=":
		if vc.isStrSV(a) {
			switch e.Name {
			case "<":
				return mathBool(app("str_lt", a.t, b.t))
			case ">":
				return mathBool(app("str_lt", b.t, a.t))
			case "<=":
				return mathBool(not(app("str_lt", b.t, a.t)))
			default:
				return mathBool(not(app("str_lt", a.t, b.t)))
			}
		}
		return mathBool(app(e.Name, a.t, b.t))
	case "+", "-", "*":
		return mathInt(app(e.Name, a.t, b.t))
	case "/":
		vc.usePrelude("tdiv")
		return mathInt(app("tdiv", a.t, b.t))
	case "%":
		vc.usePrelude("tmod")
		return mathInt(app("tmod", a.t, b.t))
	}
	vc.errorf("spec: unknown operator %s", e.Name)
	return mathInt("0")
}

func (vc *VC) valOf(x SV, env *SpecEnv) T {
	if x.typ == nil {
		return x.t
	}
	if vc.sortOf(x.typ) == "Int" {
		if p, ok := x.typ.Underlying().(*types.Pointer); ok && typeKey(p.Elem()) == "math/big.Int" {
			return sel(vc.heapGet(env.cur, vc.cellHeap(p.Elem())), x.t)
		}
		return x.t
	}
	// struct wrapping a *big.Int in field 0 (Int, Uint, Dec)
	if st, ok := x.typ.Underlying().(*types.Struct); ok && st.NumFields() == 1 {
		f := vc.fieldSpec(x, st.Field(0).Name(), env)
		return vc.valOf(f, env)
	}
	vc.errorf("spec: val() of %s", x.typ)
	return "0"
}

func (vc *VC) evalCall(e *Expr, env *SpecEnv) SV {
	fn, ok := dottedName(e.Args[0])
	if !ok {
		vc.errorf("spec: call of non-identifier")
		return mathInt("0")
	}
	args := e.Args[1:]
	env = env.nopol()
	ev := func(i int) SV { return vc.evalSpec(args[i], env) }
	switch fn {
	case "len":
		x := ev(0)
		switch x.sortIn(vc) {
		case "Slice":
			return mathInt(app("s_len", x.t))
		case "Str":
			return mathInt(app("str_len", x.t))
		case "Bytes":
			return mathInt(app("bytes_len", x.t))
		}
		if x.typ != nil {
			if a, ok := x.typ.Underlying().(*types.Array); ok {
				return mathInt(num(a.Len()))
			}
		}
		vc.errorf("spec: len of %s", x.sortIn(vc))
		return mathInt("0")
	case "cap":
		x := ev(0)
		return mathInt(app("s_cap", x.t))
	case "val":
		return mathInt(vc.valOf(ev(0), env))
	case "abs":
		x := ev(0)
		return mathInt(ite(app(">=", x.t, "0"), x.t, app("-", x.t)))
	case "min":
		a, b := ev(0), ev(1)
		return mathInt(ite(app("<=", a.t, b.t), a.t, b.t))
	case "max":
		a, b := ev(0), ev(1)
		return mathInt(ite(app(">=", a.t, b.t), a.t, b.t))
	case "pow2", "pow10":
		if args[0].Op != "num" {
			vc.errorf("spec: %s needs a literal", fn)
			return mathInt("1")
		}
		k, _ := new(big.Int).SetString(args[0].Name, 10)
		base := big.NewInt(2)
		if fn == "pow10" {
			base = big.NewInt(10)
		}
		return mathInt(new(big.Int).Exp(base, k, nil).String())
	case "ite":
		c, a, b := ev(0), ev(1), ev(2)
		r := a
		r.t = ite(c.t, a.t, b.t)
		return r
	case "fresh":
		x := ev(0)
		if x.srt == "absfield" || (x.typ != nil && vc.sortOf(x.typ) != "Int" && vc.sortOf(x.typ) != "Slice") {
			return mathBool(tTrue)
		}
		t := x.t
		if x.sortIn(vc) == "Slice" {
			t = app("s_ref", x.t)
		}
		return mathBool(app(">=", t, env.old.alloc))
	case "allocated":
		// allocated(r): reference r (an integer) denotes a cell that exists in the current state
		x := ev(0)
		t := x.t
		if x.sortIn(vc) == "Slice" {
			t = app("s_ref", x.t)
		}
		return mathBool(and(lt("0", t), lt(t, env.cur.alloc)))
	case "loopfresh":
		// loopfresh(x): x was allocated after the enclosing loop was first entered (loop invariants only)
		x := ev(0)
		if env.loopAlloc == "" {
			vc.errorf("spec: loopfresh(x) outside a loop invariant")
			return mathBool(tTrue)
		}
		t := x.t
		if x.sortIn(vc) == "Slice" {
			t = app("s_ref", x.t)
		}
		return mathBool(app(">=", t, env.loopAlloc))
	case "isnil":
		return mathBool(vc.nilOf(ev(0)))
	case "ifacenotnil":
		// true unless x is an interface value that is nil
		x := ev(0)
		if x.sortIn(vc) == "Iface" {
			return mathBool(not(vc.nilOf(x)))
		}
		return mathBool(tTrue)
	case "iterpos", "iterlen", "iterkey", "iteridx":
		// the N-th `range m` over a map in this function (source order): position, number of keys, i-th key
		// visited, index at which a key is visited
		if len(args) < 1 || args[0].Op != "num" {
			vc.errorf("spec: %s(N, ...) needs a literal range ordinal", fn)
			return mathInt("0")
		}
		n, _ := strconv.Atoi(args[0].Name)
		ks := vc.rangeKeySort(n)
		if ks == "" {
			vc.errorf("spec: %s: no range over a map with ordinal %d in this function", fn, n)
			return mathInt("0")
		}
		aks := ""
		if strings.HasPrefix(ks, "(Array") {
			// array-keyed map: the range symbols speak about the integer codes of the keys
			aks, ks = ks, "Int"
		}
		ln, key, idx := vc.rangeSyms(n, ks)
		switch fn {
		case "iterpos":
			vc.ensureHeap("Hrng", "Int", nil, false)
			return mathInt(sel(vc.heapGet(env.cur, "Hrng"), args[0].Name))
		case "iterlen":
			return mathInt(ln)
		case "iterkey":
			if aks != "" {
				return SV{t: app("arrid_inv"+sanitize(aks), app(key, ev(1).t)), srt: aks}
			}
			return SV{t: app(key, ev(1).t), srt: ks}
		default:
			if aks != "" {
				return mathInt(app(idx, app("arrid"+sanitize(aks), ev(1).t)))
			}
			return mathInt(app(idx, ev(1).t))
		}
	case "wit":
		// wit("name", args...): an integer-valued witness function that is fresh for every application of the
		// contract it occurs in (e.g. the permutation a sorting routine applies)
		if len(args) < 1 || args[0].Op != "str" {
			vc.errorf("spec: wit(\"name\", args...)")
			return mathInt("0")
		}
		sym := fmt.Sprintf("wit_%s_%d", sanitize(args[0].Name), vc.curApp)
		var as []T
		var sorts []string
		for i := 1; i < len(args); i++ {
			a := ev(i)
			as = append(as, a.t)
			sorts = append(sorts, a.sortIn(vc))
		}
		vc.declRaw("fn:"+sym, "(declare-fun "+sym+" ("+strings.Join(sorts, " ")+") Int)")
		return mathInt(app(sym, as...))
	case "global":
		// global("import/path.Name"): the current value of a package-level variable of any loaded package
		if len(args) != 1 || args[0].Op != "str" {
			vc.errorf("spec: global(\"path.Name\")")
			return mathInt("0")
		}
		q := args[0].Name
		k := strings.LastIndex(q, ".")
		if k > 0 {
			for _, sp := range vc.eng.prog.AllPackages() {
				if sp.Pkg.Path() == q[:k] || sp.Pkg.Path() == repoMod+"/"+q[:k] {
					if g := sp.Var(q[k+1:]); g != nil {
						ptr := vc.globalRef(g)
						return SV{t: vc.loadLoc(env.cur, vc.locOf(ptr)), typ: derefType(g.Type())}
					}
				}
			}
		}
		vc.errorf("spec: global: unknown variable %s", q)
		return mathInt("0")
	case "has":
		// has(m, k): key k is present in Go map m
		m, k := ev(0), ev(1)
		mt, ok := m.typ.Underlying().(*types.Map)
		if m.typ == nil || !ok {
			vc.errorf("spec: has(m, k) needs a Go map")
			return mathBool(tFalse)
		}
		_, hp, _, _ := vc.mapHeaps(mt)
		return mathBool(and(not(eq(m.t, "0")), sel(sel(vc.heapGet(env.cur, hp), m.t), vc.mapKey(mt, k.t))))
	case "bytes":
		// bytes(s): []byte(s) for a string in value mode
		x := ev(0)
		if x.sortIn(vc) != "Str" {
			vc.errorf("spec: bytes(s) needs a string")
			return SV{t: "bytes_nil", srt: "Bytes"}
		}
		vc.declBytesStr()
		return SV{t: app("str2bytes", x.t), srt: "Bytes"}
	case "str":
		// str(b): string(b) for a []byte in value mode
		b := ev(0)
		if b.sortIn(vc) != "Bytes" {
			vc.errorf("spec: str(b) needs a value-mode []byte")
			return SV{t: vc.strLit(""), srt: "Str"}
		}
		vc.declBytesStr()
		return SV{t: app("bytes2str", b.t), srt: "Str"}
	case "unbox":
		// unbox(x, "path.Type"): the concrete value of that type held by interface value x
		x := ev(0)
		if len(args) != 2 || args[1].Op != "str" {
			vc.errorf("spec: unbox(x, \"path.Type\")")
			return mathInt("0")
		}
		t := vc.eng.parseGoType(args[1].Name)
		if t == nil {
			vc.errorf("spec: unbox: unknown type %s", args[1].Name)
			return mathInt("0")
		}
		return SV{t: vc.unbox(x.t, t), typ: t}
	case "box":
		// box(x): the interface value a conversion of x to an interface type yields in the calling code
		x := ev(0)
		if x.typ == nil {
			vc.errorf("spec: box(x) needs a typed Go value")
			return SV{t: x.t, srt: "Iface"}
		}
		return SV{t: vc.makeIface(x), srt: "Iface"}
	case "strof":
		// strof(b): string(b) for a heap-mode byte slice - a function of the bytes in the slice's window
		x := ev(0)
		if x.typ == nil || vc.sortOf(x.typ) != "Slice" {
			vc.errorf("spec: strof(b) needs a heap-mode byte slice")
			return SV{t: vc.strLit(""), srt: "Str"}
		}
		vc.needSort("Str")
		vc.declRaw("fn:str_of", "(declare-fun str_of ((Array Int Int) Int Int) Str)")
		h := vc.arrHeap(types.Typ[types.Uint8])
		return SV{t: app("str_of", sel(vc.heapGet(env.cur, h), app("s_ref", x.t)), app("s_off", x.t), app("s_len", x.t)), srt: "Str"}
	case "pointee":
		// pointee(x): the cell an interface-wrapped pointer (x = interface{}(&v)) points to
		x := ev(0)
		if x.dyn == nil || x.dyn.typ == nil {
			vc.errorf("spec: pointee() needs an interface value boxed from a pointer in the calling function")
			return mathInt("0")
		}
		return vc.derefSpec(*x.dyn, env)
	case "decoded":
		// decoded(bz, x): the value an (assumed) decoder produces from bz for the pointee type of x
		bz := ev(0)
		var et types.Type
		if args[1].Op == "str" {
			et = vc.eng.parseGoType(args[1].Name)
		} else if x := ev(1); x.dyn != nil && x.dyn.typ != nil {
			et = derefType(x.dyn.typ)
		}
		if et == nil {
			vc.errorf("spec: decoded(bz, x): x must be a type name or an interface value boxed from a pointer")
			return mathInt("0")
		}
		srt := vc.sortOf(et)
		fn := "decoded_" + sanitize(srt)
		vc.declRaw("fn:"+fn, fmt.Sprintf("(declare-fun %s (%s) %s)", fn, bz.sortIn(vc), srt))
		return SV{t: app(fn, bz.t), typ: et}
	case "boxed":
		// boxed(x, "path.Type"): decided statically - the interface value x was built in the calling function
		// from a value of that type or from a pointer to it
		if len(args) != 2 || args[1].Op != "str" {
			vc.errorf("spec: boxed(x, \"path.Type\")")
			return mathBool(tFalse)
		}
		t := vc.eng.parseGoType(args[1].Name)
		x := ev(0)
		if t == nil {
			vc.errorf("spec: boxed: unknown type %s", args[1].Name)
			return mathBool(tFalse)
		}
		if x.dyn != nil && x.dyn.typ != nil && (types.Identical(x.dyn.typ, t) || types.Identical(derefType(x.dyn.typ), t)) {
			return mathBool(tTrue)
		}
		return mathBool(tFalse)
	case "decodable":
		bz := ev(0)
		var et types.Type
		if args[1].Op == "str" {
			et = vc.eng.parseGoType(args[1].Name)
		} else if x := ev(1); x.dyn != nil && x.dyn.typ != nil {
			et = derefType(x.dyn.typ)
		}
		if et == nil {
			vc.errorf("spec: decodable(bz, x): x must be a type name or an interface value boxed from a pointer")
			return mathBool(tTrue)
		}
		srt := vc.sortOf(et)
		fn := "decodable_" + sanitize(srt)
		vc.declRaw("fn:"+fn, fmt.Sprintf("(declare-fun %s (%s) Bool)", fn, bz.sortIn(vc)))
		return mathBool(app(fn, bz.t))
	case "unchanged":
		// unchanged(prefix, ...): every ghost whose name starts with prefix. has its entry value
		var eqs []T
		for _, a := range args {
			pre, ok := dottedName(a)
			if !ok {
				vc.errorf("spec: unchanged() takes ghost name prefixes")
				continue
			}
			pfx := ghostName(pre)
			var names []string
			for k := range vc.ghost {
				if k == pfx || strings.HasPrefix(k, pfx+"_") {
					names = append(names, k)
				}
			}
			sort.Strings(names)
			if len(names) == 0 {
				vc.errorf("spec: unchanged(%s): no such ghost", pre)
			}
			for _, k := range names {
				eqs = append(eqs, eq(vc.heapGet(env.cur, k), vc.heapGet(env.old, k)))
			}
		}
		return mathBool(and(eqs...))
	case "upd":
		a, i, v := ev(0), ev(1), ev(2)
		r := a
		vt := v.t
		if v.srt == "nil" {
			// nil of the array's element sort
			switch arrayElemSort(a.sortIn(vc)) {
			case "Bytes":
				vt = "bytes_nil"
			case "Coins":
				vt = "coins_nil"
			case "Int":
				vt = "0"
			default:
				vc.errorf("spec: upd(..., nil) for element sort %s", arrayElemSort(a.sortIn(vc)))
			}
		}
		r.t = sto(a.t, i.t, vt)
		return r
	case "amt":
		c, d := ev(0), ev(1)
		if c.sortIn(vc) != "Coins" {
			vc.errorf("spec: amt() needs value-mode Coins, got %s", c.sortIn(vc))
			return mathInt("0")
		}
		return mathInt(app("coins_amt", c.t, d.t))
	case "valid":
		c := ev(0)
		if c.sortIn(vc) != "Coins" {
			vc.errorf("spec: valid() needs value-mode Coins, got %s", c.sortIn(vc))
			return mathBool(tTrue)
		}
		return mathBool(app("coins_valid", c.t))
	case "ref":
		x := ev(0)
		if x.sortIn(vc) == "Slice" {
			return mathInt(app("s_ref", x.t))
		}
		return mathInt(x.t)
	case "off":
		return mathInt(app("s_off", ev(0).t))
	case "dyntype":
		return mathInt(app("i_type", ev(0).t))
	case "typeid":
		if args[0].Op != "str" {
			vc.errorf("spec: typeid needs a string literal")
			return mathInt("0")
		}
		return mathInt(num(int64(vc.typeIDByName(args[0].Name))))
	}
	// prelude function
	if f, ok := vc.eng.preludeFuncs[fn]; ok {
		vc.usePrelude(fn)
		var ts []T
		for i := range args {
			a := ev(i)
			t := a.t
			if i < len(f.Args) {
				t = vc.coerce(a, f.Args[i], env)
			}
			ts = append(ts, t)
		}
		return SV{t: app(fn, ts...), srt: f.Ret}
	}
	if env.con != nil {
		for _, d := range env.con.Defines {
			if d.Name == fn && len(args) == 1 {
				return mathInt(app(defSym(d, env.app), ev(0).t))
			}
		}
	}
	vc.errorf("spec: unknown function %s", fn)
	return mathInt("0")
}

// coerce adapts a Go-typed value to the sort a prelude function expects
// (e.g. an Int wrapper struct to its mathematical value).
func (vc *VC) coerce(a SV, want string, env *SpecEnv) T {
	have := a.sortIn(vc)
	if have == want || a.typ == nil {
		return a.t
	}
	if want == "Int" {
		if st, ok := a.typ.Underlying().(*types.Struct); ok && st.NumFields() == 1 {
			return vc.valOf(a, env)
		}
	}
	return a.t
}

func (vc *VC) usePrelude(name string) {
	vc.eng.markPrelude(vc, name)
}

func (vc *VC) ghostSV(g string, env *SpecEnv) SV {
	if t := vc.ghostType[g]; t != nil {
		return SV{t: vc.heapGet(env.cur, g), typ: t}
	}
	return SV{t: vc.heapGet(env.cur, g), srt: vc.heapSort[g]}
}

func defSym(d *Define, app int) string { return fmt.Sprintf("def_%s_%d", d.Name, app) }

// instantiateDefines declares the functions of the contract's `define` clauses for one application and returns
// their defining axioms and the well-definedness conditions (equal keys carry equal values), evaluated in env.
func (vc *VC) instantiateDefines(con *Contract, env *SpecEnv) (axioms []T, wellDefined []T) {
	for _, d := range con.Defines {
		sym := defSym(d, env.app)
		ix := sym + "_ix"
		iv := SV{t: "df_i", srt: "Int"}
		jv := SV{t: "df_j", srt: "Int"}
		// absolute positions for a slice key (see evalSpec "quant")
		if se := sliceIndexedBy(&Expr{Op: "paren", Args: []*Expr{d.Key}}, d.Idx); se != nil {
			if s0 := vc.evalSpec(se, env.nopol()); s0.typ != nil && vc.sortOf(s0.typ) == "Slice" {
				iv.t = sub("df_i", app("s_off", s0.t))
				jv.t = sub("df_j", app("s_off", s0.t))
			}
		}
		keyI := vc.evalSpec(d.Key, env.bind(d.Idx, iv).nopol())
		ks := keyI.sortIn(vc)
		vc.declRaw("fn:"+sym, fmt.Sprintf("(declare-fun %s (%s) Int)\n(declare-fun %s (%s) Int)", sym, ks, ix, ks))
		valI := vc.evalSpec(d.Val, env.bind(d.Idx, iv).nopol())
		keyJ := vc.evalSpec(d.Key, env.bind(d.Idx, jv).nopol())
		valJ := vc.evalSpec(d.Val, env.bind(d.Idx, jv).nopol())
		gv := SV{t: app(ix, "df_d"), srt: "Int"}
		keyG := vc.evalSpec(d.Key, env.bind(d.Idx, gv).nopol())
		lo := vc.evalSpec(d.Lo, env.nopol()).t
		hi := vc.evalSpec(d.Hi, env.nopol()).t
		def := vc.evalSpec(d.Def, env.nopol()).t
		rng := func(i T) T { return and(le(lo, i), lt(i, hi)) }
		axioms = append(axioms,
			"(forall ((df_i Int)) (! (=> "+rng(iv.t)+" "+eq(app(sym, keyI.t), valI.t)+") :pattern ("+keyI.t+")))",
			"(forall ((df_d "+ks+")) (! (or (and "+rng(gv.t)+" "+eq(keyG.t, "df_d")+") "+eq(app(sym, "df_d"), def)+") :pattern (("+sym+" df_d))))")
		wellDefined = append(wellDefined,
			"(forall ((df_i Int) (df_j Int)) (=> (and "+rng(iv.t)+" "+rng(jv.t)+" "+eq(keyI.t, keyJ.t)+") "+eq(valI.t, valJ.t)+"))")
	}
	return
}

// sliceIndexedBy finds an expression S such that S[v] occurs in e (patterns first) with v a plain identifier.
func sliceIndexedBy(e *Expr, v string) *Expr {
	var found *Expr
	var walk func(x *Expr)
	walk = func(x *Expr) {
		if x == nil || found != nil {
			return
		}
		if x.Op == "index" && len(x.Args) == 2 && x.Args[1] != nil && x.Args[1].Op == "ident" && x.Args[1].Name == v {
			found = x.Args[0]
			return
		}
		if x.Op == "quant" {
			for _, qv := range x.Vars {
				if qv[0] == v {
					return // shadowed
				}
			}
		}
		for _, p := range x.Pat {
			walk(p)
		}
		for _, a := range x.Args {
			walk(a)
		}
	}
	for _, p := range e.Pat {
		walk(p)
	}
	for _, a := range e.Args {
		walk(a)
	}
	return found
}

// mentionsAny: does expression e mention one of the quantified variables?
func mentionsAny(e *Expr, vars [][2]string) bool {
	if e == nil {
		return false
	}
	if e.Op == "ident" {
		for _, v := range vars {
			if v[0] == e.Name {
				return true
			}
		}
	}
	for _, a := range e.Args {
		if mentionsAny(a, vars) {
			return true
		}
	}
	return false
}
