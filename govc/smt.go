package main

// Terms are SMT-LIB2 s-expression strings with light constant folding.

import (
	"bytes"
	"context"
	"fmt"
	"math/big"
	"os"
	"os/exec"
	"path/filepath"
	"strings"
	"sync"
	"time"
)

type T = string

const (
	tTrue  = "true"
	tFalse = "false"
)

func app(f string, args ...T) T {
	if len(args) == 0 {
		return f
	}
	return "(" + f + " " + strings.Join(args, " ") + ")"
}

func num(n int64) T {
	if n < 0 {
		return fmt.Sprintf("(- %d)", -n)
	}
	return fmt.Sprintf("%d", n)
}

func numBig(n *big.Int) T {
	if n.Sign() < 0 {
		return "(- " + new(big.Int).Neg(n).String() + ")"
	}
	return n.String()
}

func not(a T) T {
	switch a {
	case tTrue:
		return tFalse
	case tFalse:
		return tTrue
	}
	if strings.HasPrefix(a, "(not ") && balanced(a[5:len(a)-1]) {
		return a[5 : len(a)-1]
	}
	return "(not " + a + ")"
}

func balanced(s string) bool {
	d := 0
	for i := 0; i < len(s); i++ {
		switch s[i] {
		case '(':
			d++
		case ')':
			d--
			if d < 0 {
				return false
			}
		case ' ':
			if d == 0 {
				return false
			}
		}
	}
	return d == 0
}

func and(as ...T) T {
	var out []T
	for _, a := range as {
		if a == tTrue {
			continue
		}
		if a == tFalse {
			return tFalse
		}
		out = append(out, a)
	}
	switch len(out) {
	case 0:
		return tTrue
	case 1:
		return out[0]
	}
	return "(and " + strings.Join(out, " ") + ")"
}

func or(as ...T) T {
	var out []T
	for _, a := range as {
		if a == tFalse {
			continue
		}
		if a == tTrue {
			return tTrue
		}
		out = append(out, a)
	}
	switch len(out) {
	case 0:
		return tFalse
	case 1:
		return out[0]
	}
	return "(or " + strings.Join(out, " ") + ")"
}

func implies(a, b T) T {
	if a == tTrue {
		return b
	}
	if a == tFalse || b == tTrue {
		return tTrue
	}
	if b == tFalse {
		return not(a)
	}
	return "(=> " + a + " " + b + ")"
}

func ite(c, a, b T) T {
	if c == tTrue {
		return a
	}
	if c == tFalse {
		return b
	}
	if a == b {
		return a
	}
	return "(ite " + c + " " + a + " " + b + ")"
}

func eq(a, b T) T {
	if a == b {
		return tTrue
	}
	return "(= " + a + " " + b + ")"
}

func sel(a, i T) T      { return "(select " + a + " " + i + ")" }
func sto(a, i, v T) T   { return "(store " + a + " " + i + " " + v + ")" }
func add(a, b T) T      { return "(+ " + a + " " + b + ")" }
func sub(a, b T) T      { return "(- " + a + " " + b + ")" }
func lt(a, b T) T       { return "(< " + a + " " + b + ")" }
func le(a, b T) T       { return "(<= " + a + " " + b + ")" }
func inRange(x, lo, hi T) T { return "(and (<= " + lo + " " + x + ") (<= " + x + " " + hi + "))" }

// ---------------------------------------------------------------- s-expr parsing

type Sx struct {
	Atom string
	List []*Sx
	IsList bool
}

func (s *Sx) String() string {
	if !s.IsList {
		return s.Atom
	}
	parts := make([]string, len(s.List))
	for i, c := range s.List {
		parts[i] = c.String()
	}
	return "(" + strings.Join(parts, " ") + ")"
}

func parseSx(src string) ([]*Sx, error) {
	var stack [][]*Sx
	cur := []*Sx{}
	i := 0
	for i < len(src) {
		c := src[i]
		switch {
		case c == ';':
			for i < len(src) && src[i] != '\n' {
				i++
			}
		case c == '(':
			stack = append(stack, cur)
			cur = []*Sx{}
			i++
		case c == ')':
			if len(stack) == 0 {
				return nil, fmt.Errorf("unbalanced )")
			}
			l := &Sx{List: cur, IsList: true}
			cur = append(stack[len(stack)-1], l)
			stack = stack[:len(stack)-1]
			i++
		case c == ' ' || c == '\n' || c == '\t' || c == '\r':
			i++
		case c == '"':
			j := i + 1
			for j < len(src) && src[j] != '"' {
				j++
			}
			cur = append(cur, &Sx{Atom: src[i : j+1]})
			i = j + 1
		case c == '|':
			j := i + 1
			for j < len(src) && src[j] != '|' {
				j++
			}
			cur = append(cur, &Sx{Atom: src[i : j+1]})
			i = j + 1
		default:
			j := i
			for j < len(src) && !strings.ContainsRune("() \n\t\r", rune(src[j])) {
				j++
			}
			cur = append(cur, &Sx{Atom: src[i:j]})
			i = j
		}
	}
	if len(stack) != 0 {
		return nil, fmt.Errorf("unbalanced (")
	}
	return cur, nil
}

// sxInt evaluates an integer literal s-expr such as 5, (- 5), (- 0 5).
func sxInt(s *Sx) (*big.Int, bool) {
	if !s.IsList {
		n, ok := new(big.Int).SetString(s.Atom, 10)
		return n, ok
	}
	if len(s.List) == 2 && s.List[0].Atom == "-" {
		n, ok := sxInt(s.List[1])
		if !ok {
			return nil, false
		}
		return n.Neg(n), true
	}
	return nil, false
}

// ---------------------------------------------------------------- solver racing

type SolverResult struct {
	Answer string // unsat | sat | unknown | timeout | error
	Solver string
	Ms     int64
	Output string // full stdout of the winning (or last) solver
	All    map[string]string
}

var solverCmds = map[string][]string{
	"z3":    {"z3", "-smt2"},
	"z3new": {"z3-new", "-smt2"},
	"cvc5":  {"cvc5", "--lang=smt2", "--produce-models"},
	"cvc5e": {"cvc5", "--lang=smt2", "--produce-models", "--full-saturate-quant"},
}

var solverOrder = []string{"z3new", "z3", "cvc5", "cvc5e"}

type solverStat struct {
	Wins int     `json:"wins"`
	Time float64 `json:"time_s"`
}

var (
	statMu     sync.Mutex
	solverStats = map[string]*solverStat{}
)

func runOne(ctx context.Context, name, file string, timeout time.Duration) (string, string, int64) {
	c := solverCmds[name]
	args := append([]string{}, c[1:]...)
	switch name {
	case "z3", "z3new":
		args = append(args, fmt.Sprintf("-T:%d", int(timeout.Seconds())+1))
	case "cvc5", "cvc5e":
		args = append(args, fmt.Sprintf("--tlimit=%d", timeout.Milliseconds()))
	}
	args = append(args, file)
	cctx, cancel := context.WithTimeout(ctx, timeout+2*time.Second)
	defer cancel()
	cmd := exec.CommandContext(cctx, c[0], args...)
	var out bytes.Buffer
	cmd.Stdout = &out
	cmd.Stderr = &out
	t0 := time.Now()
	_ = cmd.Run()
	ms := time.Since(t0).Milliseconds()
	s := out.String()
	for _, ln := range strings.Split(s, "\n") {
		first := strings.TrimSpace(ln)
		if strings.HasPrefix(first, "WARNING") || first == "" {
			continue
		}
		switch first {
		case "unsat", "sat", "unknown":
			return first, s, ms
		}
		break
	}
	if cctx.Err() != nil || strings.Contains(s, "timeout") || strings.Contains(s, "interrupted") {
		return "timeout", s, ms
	}
	return "error", s, ms
}

// solve races the configured solvers on the query. A definite answer (sat or unsat) from
// any solver ends the race in quick mode; in thorough mode all solvers run to completion
// and disagreement is reported as "disagree".
func solve(query string, name string, timeout time.Duration, all bool, tmpdir string, noAbstract bool) SolverResult {
	safe := strings.Map(func(r rune) rune {
		if r == '/' || r == ' ' || r == '*' || r == '(' || r == ')' {
			return '_'
		}
		return r
	}, name)
	if len(safe) > 150 {
		safe = safe[:150]
	}
	file := filepath.Join(tmpdir, safe+".smt2")
	if err := os.WriteFile(file, []byte(query), 0o644); err != nil {
		return SolverResult{Answer: "error", Output: err.Error()}
	}
	if !noAbstract {
		if aq := abstractQuery(query); aq != "" {
			afile := filepath.Join(tmpdir, safe+".abs.smt2")
			if os.WriteFile(afile, []byte(aq), 0o644) == nil {
				a, o, ms := raceTwo(afile, 3*time.Second)
				if a == "unsat" {
					statMu.Lock()
					if solverStats["abstract"] == nil {
						solverStats["abstract"] = &solverStat{}
					}
					solverStats["abstract"].Wins++
					solverStats["abstract"].Time += float64(ms) / 1000
					statMu.Unlock()
					return SolverResult{Answer: "unsat", Solver: "nl-abstract", Ms: ms, Output: o, All: map[string]string{"nl-abstract": a}}
				}
			}
		}
	}
	if !all {
		// stage 1: the fastest solver alone with a short limit; most obligations end here
		st := 3 * time.Second
		if timeout < st {
			st = timeout
		}
		a, o, ms := raceTwo(file, st)
		statMu.Lock()
		if solverStats["z3new"] == nil {
			solverStats["z3new"] = &solverStat{}
		}
		solverStats["z3new"].Time += float64(ms) / 1000
		if a == "sat" || a == "unsat" {
			solverStats["z3new"].Wins++
		}
		statMu.Unlock()
		if a == "sat" || a == "unsat" {
			return SolverResult{Answer: a, Solver: "z3new", Ms: ms, Output: o, All: map[string]string{"z3new": a}}
		}
	}
	ctx, cancel := context.WithCancel(context.Background())
	defer cancel()
	type res struct {
		name, ans, out string
		ms             int64
	}
	ch := make(chan res, len(solverOrder))
	for _, s := range solverOrder {
		go func(s string) {
			a, o, ms := runOne(ctx, s, file, timeout)
			ch <- res{s, a, o, ms}
		}(s)
	}
	final := SolverResult{Answer: "timeout", All: map[string]string{}}
	got := 0
	for got < len(solverOrder) {
		r := <-ch
		got++
		final.All[r.name] = r.ans
		statMu.Lock()
		st := solverStats[r.name]
		if st == nil {
			st = &solverStat{}
			solverStats[r.name] = st
		}
		st.Time += float64(r.ms) / 1000
		statMu.Unlock()
		definite := r.ans == "sat" || r.ans == "unsat"
		if definite {
			if final.Answer == "sat" || final.Answer == "unsat" {
				if final.Answer != r.ans {
					final.Answer = "disagree"
					final.Output += "\n--- " + r.name + ":\n" + r.out
				}
				continue
			}
			final.Answer, final.Solver, final.Ms, final.Output = r.ans, r.name, r.ms, r.out
			statMu.Lock()
			solverStats[r.name].Wins++
			statMu.Unlock()
			if !all {
				cancel()
				break
			}
		} else if final.Answer != "sat" && final.Answer != "unsat" && final.Answer != "disagree" {
			// keep the most informative non-answer
			if final.Answer == "timeout" || r.ans == "unknown" {
				final.Answer, final.Solver, final.Ms, final.Output = r.ans, r.name, r.ms, r.out
			}
		}
	}
	return final
}

// raceTwo runs z3new and cvc5 (enumerative instantiation) side by side and returns the first
// definite answer.
func raceTwo(file string, timeout time.Duration) (string, string, int64) {
	ctx, cancel := context.WithCancel(context.Background())
	defer cancel()
	type res struct {
		a, o string
		ms   int64
	}
	ch := make(chan res, 2)
	for _, s := range []string{"z3new", "cvc5e"} {
		go func(s string) {
			a, o, ms := runOne(ctx, s, file, timeout)
			ch <- res{a, o, ms}
		}(s)
	}
	var last res
	for i := 0; i < 2; i++ {
		r := <-ch
		if r.a == "sat" || r.a == "unsat" {
			return r.a, r.o, r.ms
		}
		if last.a == "" || r.a == "unknown" {
			last = r
		}
	}
	return last.a, last.o, last.ms
}
