package main

// Terms are SMT-LIB2 s-expression strings with light constant folding.

import (
	"bytes"
	"context"
	"fmt"
	"math/big"
	"os"
	"os/exec"
	"path/filepath"
	"strings"
	"sync"
	"time"
)

type T = string

const (
	tTrue  = "true"
	tFalse = "false"
)

func app(f string, args ...T) T {
	if len(args) == 0 {
		return f
	}
	return "(" + f + " " + strings.Join(args, " ") + ")"
}

func num(n int64) T {
	if n < 0 {
		return fmt.Sprintf("(- %d)", -n)
	}
	return fmt.Sprintf("%d", n)
}

func numBig(n *big.Int) T {
	if n.Sign() < 0 {
		return "(- " + new(big.Int).Neg(n).String() + ")"
	}
	return n.String()
}

func not(a T) T {
	switch a {
	case tTrue:
		return tFalse
	case tFalse:
		return tTrue
	}
	if strings.HasPrefix(a, "(not ") && balanced(a[5:len(a)-1]) {
		return a[5 : len(a)-1]
	}
	return "(not " + a + ")"
}

func balanced(s string) bool {
	d := 0
	for i := 0; i < len(s); i++ {
		switch s[i] {
		case '(':
			d++
		case ')':
			d--
			if d < 0 {
				return false
			}
		case ' ':
			if d == 0 {
				return false
			}
		}
	}
	return d == 0
}

func and(as ...T) T {
	var out []T
	for _, a := range as {
		if a == tTrue {
			continue
		}
		if a == tFalse {
			return tFalse
		}
		out = append(out, a)
	}
	switch len(out) {
	case 0:
		return tTrue
	case 1:
		return out[0]
	}
	return "(and " + strings.Join(out, " ") + ")"
}

func or(as ...T) T {
	var out []T
	for _, a := range as {
		if a == tFalse {
			continue
		}
		if a == tTrue {
			return tTrue
		}
		out = append(out, a)
	}
	switch len(out) {
	case 0:
		return tFalse
	case 1:
		return out[0]
	}
	return "(or " + strings.Join(out, " ") + ")"
}

func implies(a, b T) T {
	if a == tTrue {
		return b
	}
	if a == tFalse || b == tTrue {
		return tTrue
	}
	if b == tFalse {
		return not(a)
	}
	return "(=> " + a + " " + b + ")"
}

func ite(c, a, b T) T {
	if c == tTrue {
		return a
	}
	if c == tFalse {
		return b
	}
	if a == b {
		return a
	}
	return "(ite " + c + " " + a + " " + b + ")"
}

func eq(a, b T) T {
	if a == b {
		return tTrue
	}
	return "(= " + a + " " + b + ")"
}

func sel(a, i T) T      { return "(select " + a + " " + i + ")" }
func sto(a, i, v T) T   { return "(store " + a + " " + i + " " + v + ")" }
func add(a, b T) T {
	if a == "0" {
		return b
	}
	if b == "0" {
		return a
	}
	// off + (x - off) = x: absolute-index form of quantified slice indices (see evalSpec "quant")
	if strings.HasPrefix(b, "(- ") && strings.HasSuffix(b, " "+a+")") {
		if x := b[3 : len(b)-len(a)-2]; balanced(x) && !strings.Contains(x, " ") {
			return x
		}
	}
	return "(+ " + a + " " + b + ")"
}
func sub(a, b T) T {
	if b == "0" {
		return a
	}
	return "(- " + a + " " + b + ")"
}
func lt(a, b T) T       { return "(< " + a + " " + b + ")" }
func le(a, b T) T       { return "(<= " + a + " " + b + ")" }
func inRange(x, lo, hi T) T { return "(and (<= " + lo + " " + x + ") (<= " + x + " " + hi + "))" }

// ---------------------------------------------------------------- s-expr parsing

type Sx struct {
	Atom string
	List []*Sx
	IsList bool
}

func (s *Sx) String() string {
	if !s.IsList {
		return s.Atom
	}
	parts := make([]string, len(s.List))
	for i, c := range s.List {
		parts[i] = c.String()
	}
	return "(" + strings.Join(parts, " ") + ")"
}

func parseSx(src string) ([]*Sx, error) {
	var stack [][]*Sx
	cur := []*Sx{}
	i := 0
	for i < len(src) {
		c := src[i]
		switch {
		case c == ';':
			for i < len(src) && src[i] != '\n' {
				i++
			}
		case c == '(':
			stack = append(stack, cur)
			cur = []*Sx{}
			i++
		case c == ')':
			if len(stack) == 0 {
				return nil, fmt.Errorf("unbalanced )")
			}
			l := &Sx{List: cur, IsList: true}
			cur = append(stack[len(stack)-1], l)
			stack = stack[:len(stack)-1]
			i++
		case c == ' ' || c == '\n' || c == '\t' || c == '\r':
			i++
		case c == '"':
			j := i + 1
			for j < len(src) && src[j] != '"' {
				j++
			}
			cur = append(cur, &Sx{Atom: src[i : j+1]})
			i = j + 1
		case c == '|':
			j := i + 1
			for j < len(src) && src[j] != '|' {
				j++
			}
			cur = append(cur, &Sx{Atom: src[i : j+1]})
			i = j + 1
		default:
			j := i
			for j < len(src) && !strings.ContainsRune("() \n\t\r", rune(src[j])) {
				j++
			}
			cur = append(cur, &Sx{Atom: src[i:j]})
			i = j
		}
	}
	if len(stack) != 0 {
		return nil, fmt.Errorf("unbalanced (")
	}
	return cur, nil
}

// sxInt evaluates an integer literal s-expr such as 5, (- 5), (- 0 5).
func sxInt(s *Sx) (*big.Int, bool) {
	if !s.IsList {
		n, ok := new(big.Int).SetString(s.Atom, 10)
		return n, ok
	}
	if len(s.List) == 2 && s.List[0].Atom == "-" {
		n, ok := sxInt(s.List[1])
		if !ok {
			return nil, false
		}
		return n.Neg(n), true
	}
	return nil, false
}

// ---------------------------------------------------------------- solver racing

type SolverResult struct {
	Answer string // unsat | sat | unknown | timeout | error
	Solver string
	Ms     int64
	Output string // full stdout of the winning (or last) solver
	All    map[string]string
}

var solverCmds = map[string][]string{
	"z3":    {"z3", "-smt2"},
	"z3new": {"z3-new", "-smt2"},
	"cvc5":  {"cvc5", "--lang=smt2", "--produce-models"},
	"cvc5e": {"cvc5", "--lang=smt2", "--produce-models", "--full-saturate-quant"},
	"z3new7": {"z3-new", "-smt2", "smt.random_seed=7", "sat.random_seed=7"},
}

var solverOrder = []string{"z3new", "z3", "cvc5", "cvc5e"}

type solverStat struct {
	Wins int     `json:"wins"`
	Time float64 `json:"time_s"`
}

var (
	statMu     sync.Mutex
	solverStats = map[string]*solverStat{}
)

func runOne(ctx context.Context, name, file string, timeout time.Duration) (string, string, int64) {
	c := solverCmds[name]
	args := append([]string{}, c[1:]...)
	switch name {
	case "z3", "z3new", "z3new7":
		args = append(args, fmt.Sprintf("-T:%d", int(timeout.Seconds())+1))
	case "cvc5", "cvc5e":
		args = append(args, fmt.Sprintf("--tlimit=%d", timeout.Milliseconds()))
	}
	args = append(args, file)
	cctx, cancel := context.WithTimeout(ctx, timeout+2*time.Second)
	defer cancel()
	cmd := exec.CommandContext(cctx, c[0], args...)
	var out bytes.Buffer
	cmd.Stdout = &out
	cmd.Stderr = &out
	t0 := time.Now()
	_ = cmd.Run()
	ms := time.Since(t0).Milliseconds()
	s := out.String()
	for _, ln := range strings.Split(s, "\n") {
		first := strings.TrimSpace(ln)
		if strings.HasPrefix(first, "WARNING") || first == "" {
			continue
		}
		switch first {
		case "unsat", "sat", "unknown":
			return first, s, ms
		}
		break
	}
	if cctx.Err() != nil || strings.Contains(s, "timeout") || strings.Contains(s, "interrupted") {
		return "timeout", s, ms
	}
	return "error", s, ms
}

// solve decides one query. Two encodings are tried side by side: the exact query and its
// nonlinear abstraction (unsat of the abstraction implies unsat of the query; any other answer of
// the abstraction is ignored). Stage A: z3 5.1 on both, short limit. Stage B: a portfolio
// (second z3 seed, cvc5 with enumerative instantiation, z3 4.8, cvc5) until the timeout. In
// thorough mode (all) every solver runs on the exact query and disagreement is reported.
func solve(query string, name string, timeout time.Duration, all bool, tmpdir string, noAbstract bool) SolverResult {
	safe := strings.Map(func(r rune) rune {
		if r == '/' || r == ' ' || r == '*' || r == '(' || r == ')' {
			return '_'
		}
		return r
	}, name)
	if len(safe) > 150 {
		safe = safe[:150]
	}
	file := filepath.Join(tmpdir, safe+".smt2")
	if err := os.WriteFile(file, []byte(query), 0o644); err != nil {
		return SolverResult{Answer: "error", Output: err.Error()}
	}
	afile := ""
	if !noAbstract {
		if aq := abstractQuery(query); aq != "" {
			afile = filepath.Join(tmpdir, safe+".abs.smt2")
			if os.WriteFile(afile, []byte(aq), 0o644) != nil {
				afile = ""
			}
		}
	}
	type job struct {
		solver string
		file   string
		abs    bool
	}
	type res struct {
		j   job
		ans string
		out string
		ms  int64
	}
	final := SolverResult{Answer: "timeout", All: map[string]string{}}
	record := func(r res) {
		key := r.j.solver
		if r.j.abs {
			key = "nl-abstract"
		}
		statMu.Lock()
		st := solverStats[key]
		if st == nil {
			st = &solverStat{}
			solverStats[key] = st
		}
		st.Time += float64(r.ms) / 1000
		statMu.Unlock()
	}
	win := func(r res) {
		key := r.j.solver
		if r.j.abs {
			key = "nl-abstract"
		}
		statMu.Lock()
		solverStats[key].Wins++
		statMu.Unlock()
		final.Answer, final.Solver, final.Ms, final.Output = r.ans, key, r.ms, r.out
	}
	runStage := func(jobs []job, limit time.Duration, waitAll bool) bool {
		ctx, cancel := context.WithCancel(context.Background())
		defer cancel()
		ch := make(chan res, len(jobs))
		for _, j := range jobs {
			go func(j job) {
				a, o, ms := runOne(ctx, j.solver, j.file, limit)
				ch <- res{j, a, o, ms}
			}(j)
		}
		decided := false
		for i := 0; i < len(jobs); i++ {
			r := <-ch
			record(r)
			if r.j.abs {
				if r.ans == "unsat" && !decided {
					win(r)
					decided = true
					if !waitAll {
						return true
					}
				}
				continue
			}
			final.All[r.j.solver] = r.ans
			if r.ans == "sat" || r.ans == "unsat" {
				if decided && (final.Answer == "sat" || final.Answer == "unsat") && final.Answer != r.ans && final.Solver != "nl-abstract" {
					final.Answer = "disagree"
					final.Output += "\n--- " + r.j.solver + ":\n" + r.out
					continue
				}
				if !decided {
					win(r)
					decided = true
					if !waitAll {
						return true
					}
				}
			} else if !decided {
				if (final.Answer == "timeout" && final.Solver == "") || r.ans == "unknown" || (final.Answer == "error" && r.ans != "error") {
					final.Answer, final.Solver, final.Ms, final.Output = r.ans, r.j.solver, r.ms, r.out
				}
			}
		}
		return decided
	}
	if all {
		jobs := []job{{"z3new", file, false}, {"z3", file, false}, {"cvc5", file, false}, {"cvc5e", file, false}}
		if afile != "" {
			jobs = append(jobs, job{"z3new", afile, true}, job{"cvc5e", afile, true})
		}
		runStage(jobs, timeout, true)
		return final
	}
	stageA := []job{{"z3new", file, false}}
	if afile != "" {
		stageA = append(stageA, job{"z3new", afile, true})
	}
	// lean variant: all quantified assumptions dropped (fewer assumptions: unsat stays sound)
	lfile := ""
	if !noAbstract && strings.Contains(query, "forall") {
		var lb strings.Builder
		for _, ln := range strings.Split(query, "\n") {
			if strings.HasPrefix(ln, "(assert") && strings.Contains(ln, "(forall") && !strings.HasPrefix(ln, "(assert (not ") {
				continue
			}
			lb.WriteString(ln)
			lb.WriteString("\n")
		}
		lfile = filepath.Join(tmpdir, safe+".lean.smt2")
		if os.WriteFile(lfile, []byte(lb.String()), 0o644) == nil {
			stageA = append(stageA, job{"z3new", lfile, true})
		} else {
			lfile = ""
		}
	}
	la := 1500 * time.Millisecond
	if timeout < la {
		la = timeout
	}
	if runStage(stageA, la, false) {
		return final
	}
	stageB := []job{{"z3new7", file, false}, {"cvc5e", file, false}, {"z3", file, false}, {"z3new", file, false}}
	if afile != "" {
		stageB = append(stageB, job{"z3new7", afile, true}, job{"cvc5e", afile, true}, job{"z3new", afile, true})
	}
	if lfile != "" {
		stageB = append(stageB, job{"z3new", lfile, true}, job{"cvc5", lfile, true})
	}
	runStage(stageB, timeout, false)
	return final
}

// raceTwo runs z3new and cvc5 (enumerative instantiation) side by side and returns the first
// definite answer.
func raceTwo(file string, timeout time.Duration) (string, string, int64) {
	// cheap first attempt: one solver, short limit
	if a, o, ms := runOne(context.Background(), "z3new", file, 1500*time.Millisecond); a == "sat" || a == "unsat" {
		return a, o, ms
	}
	ctx, cancel := context.WithCancel(context.Background())
	defer cancel()
	type res struct {
		a, o string
		ms   int64
	}
	ch := make(chan res, 3)
	for _, s := range []string{"z3new", "z3new7", "cvc5e"} {
		go func(s string) {
			a, o, ms := runOne(ctx, s, file, timeout)
			ch <- res{a, o, ms}
		}(s)
	}
	var last res
	for i := 0; i < 3; i++ {
		r := <-ch
		if r.a == "sat" || r.a == "unsat" {
			return r.a, r.o, r.ms
		}
		if last.a == "" || r.a == "unknown" {
			last = r
		}
	}
	return last.a, last.o, last.ms
}
