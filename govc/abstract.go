package main

// Nonlinear abstraction of a query: products, quotients and remainders with a symbolic
// second operand become uninterpreted functions. If the abstract query is unsat, so is the
// exact one; any other answer is discarded and the exact query decides.

import "strings"

func isNumSx(s *Sx) bool {
	_, ok := sxInt(s)
	return ok
}

func abstractSx(s *Sx) *Sx {
	if !s.IsList || len(s.List) == 0 {
		return s
	}
	head := s.List[0].Atom
	if head == "define-fun" || head == "define-fun-rec" || head == "declare-fun" || head == "declare-datatypes" || head == "declare-sort" || head == "set-option" || head == "set-logic" {
		return s
	}
	out := &Sx{IsList: true, List: make([]*Sx, len(s.List))}
	for i, c := range s.List {
		out.List[i] = abstractSx(c)
	}
	switch head {
	case "*":
		var nums, syms []*Sx
		for _, a := range out.List[1:] {
			if isNumSx(a) {
				nums = append(nums, a)
			} else {
				syms = append(syms, a)
			}
		}
		if len(syms) >= 2 {
			acc := syms[0]
			for _, x := range syms[1:] {
				acc = &Sx{IsList: true, List: []*Sx{{Atom: "mulU"}, acc, x}}
			}
			if len(nums) == 0 {
				return acc
			}
			l := []*Sx{{Atom: "*"}}
			l = append(l, nums...)
			l = append(l, acc)
			return &Sx{IsList: true, List: l}
		}
	case "div", "mod", "tdiv", "tmod":
		if len(out.List) == 3 && !isNumSx(out.List[2]) {
			out.List[0] = &Sx{Atom: head + "U"}
		}
	}
	return out
}

const abstractDecls = "(declare-fun mulU (Int Int) Int)\n(declare-fun divU (Int Int) Int)\n(declare-fun modU (Int Int) Int)\n(declare-fun tdivU (Int Int) Int)\n(declare-fun tmodU (Int Int) Int)\n"

// abstractQuery returns the abstracted text, or "" if the query has nothing to abstract.
func abstractQuery(q string) string {
	if !strings.Contains(q, "(* ") && !strings.Contains(q, "(tdiv ") && !strings.Contains(q, "(tmod ") && !strings.Contains(q, "(div ") && !strings.Contains(q, "(mod ") {
		return ""
	}
	sxs, err := parseSx(q)
	if err != nil {
		return ""
	}
	var sb strings.Builder
	declared := false
	changed := false
	for _, s := range sxs {
		if !declared && s.IsList && len(s.List) > 0 && (s.List[0].Atom == "declare-fun" || s.List[0].Atom == "declare-datatypes" || s.List[0].Atom == "declare-sort" || s.List[0].Atom == "define-fun") {
			sb.WriteString(abstractDecls)
			declared = true
		}
		a := abstractSx(s)
		t := a.String()
		if t != s.String() {
			changed = true
		}
		sb.WriteString(t)
		sb.WriteString("\n")
	}
	if !changed {
		return ""
	}
	return sb.String()
}
