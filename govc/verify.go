package main

// Per-function verification driver: builds the VC for one function under contract.

import (
	"fmt"
	"go/types"
	"sort"
	"strings"

	"golang.org/x/tools/go/ssa"
)

func (vc *VC) lenient() bool {
	if vc.con == nil {
		return true
	}
	if vc.con.MayPanic {
		return true
	}
	return vc.mode == ValueMode && !vc.strict
}

func (vc *VC) topEnv(cur *State) *SpecEnv {
	env := &SpecEnv{vc: vc, vars: map[string]SV{}, cur: cur, old: vc.entry, pkg: vc.fn.Pkg.Pkg, mode: vc.mode, con: vc.con}
	for k, v := range vc.params {
		env.vars[k] = v
	}
	return env
}

func (e *Engine) newVC(fn *ssa.Function, con *Contract) *VC {
	vc := &VC{eng: e, fn: fn, con: con, declared: map[string]bool{}, heapSort: map[string]string{}, heapElem: map[string]types.Type{}, heapRows: map[string]bool{}, ghost: map[string]bool{},
		counters: map[string]int{}, assumes: map[string]bool{}, strConst: map[string]string{}, typeIDs: map[string]int{},
		params: map[string]SV{}, modLoops: map[*ssa.BasicBlock]map[string]bool{}, modFound: map[*ssa.BasicBlock]map[string]bool{},
		nonnil: map[T]bool{}, used: map[string]bool{}, preludeUsed: map[string]bool{}, ghostType: map[string]types.Type{}}
	vc.mode = e.defaultMode(fn)
	if con != nil && con.ModeSet {
		vc.mode = con.Mode
	}
	if con != nil {
		for _, u := range con.Uses {
			if u == "strict" {
				vc.strict = true
			}
		}
	}
	return vc
}

func (e *Engine) defaultMode(fn *ssa.Function) Mode {
	return pathMode(fn.Pkg.Pkg.Path())
}

func pathMode(p string) Mode {
	switch {
	case p == repoMod+"/store/cachekv":
		return ValueMode // keys and values are byte strings (no aliasing questions); the cache is a Go map
	case p == repoMod+"/types", strings.HasPrefix(p, repoMod+"/store"), p == repoMod+"/x/pos/types", p == repoMod+"/crypto":
		return HeapMode
	}
	return ValueMode
}

func (vc *VC) registerGhosts() {
	for _, g := range vc.eng.ghosts {
		srt := g.Sort
		if strings.HasPrefix(srt, "$") && !strings.ContainsAny(srt, "( ") {
			// a ghost of a Go type
			if t := vc.eng.parseGoType(srt[1:]); t != nil {
				if _, abstract := valueModeSorts[typeKey(t)]; abstract && vc.mode != ValueMode {
					continue
				}
				vc.ensureGhost(ghostName(g.Name), vc.sortOf(t))
				vc.ghostType[ghostName(g.Name)] = t
				continue
			}
			continue // the package of that type is not part of this run: the ghost cannot be mentioned
		}
		if strings.Contains(srt, "$") {
			if vc.mode != ValueMode && !onlySliceTypes(srt) {
				continue
			}
			srt = vc.eng.expandGhostSort(vc, srt)
			if srt == "" {
				continue
			}
		}
		vc.ensureGhost(ghostName(g.Name), srt)
		for _, a := range sortAtoms(srt) {
			if _, ok := vc.eng.preludeFuncs[a]; ok || vc.eng.preludeSorts[a] {
				vc.preludeUsed[a] = true
			}
		}
	}
}

func sortAtoms(s string) []string {
	s = strings.NewReplacer("(", " ", ")", " ").Replace(s)
	return strings.Fields(s)
}

type target struct {
	heap  string
	key   T
	field int // -1: whole entry
	whole bool
	ftype types.Type
	cell  types.Type
}

func (vc *VC) resolveTarget(e *Expr, env *SpecEnv) (target, bool) {
	heapByName := func(dn string) (string, bool) {
		if _, ok := vc.heapSort[ghostName(dn)]; ok {
			return ghostName(dn), true
		}
		if _, ok := vc.heapSort[dn]; ok {
			return dn, true
		}
		return "", false
	}
	if dn, ok := dottedName(e); ok {
		root := strings.SplitN(dn, ".", 2)[0]
		if _, isVar := env.vars[root]; !isVar {
			if h, ok := heapByName(dn); ok {
				return target{heap: h, whole: true, field: -1}, true
			}
			vc.errorf("modifies: unknown heap or ghost %q", dn)
			return target{}, false
		}
	}
	switch e.Op {
	case "index":
		if dn, ok := dottedName(e.Args[0]); ok {
			root := strings.SplitN(dn, ".", 2)[0]
			if _, isVar := env.vars[root]; !isVar {
				h, ok := heapByName(dn)
				if !ok {
					vc.errorf("modifies: unknown heap or ghost %q", dn)
					return target{}, false
				}
				k := vc.evalSpec(e.Args[1], env)
				kt := k.t
				if k.typ != nil && vc.sortOf(k.typ) != "Int" && arrayKeySort(vc.heapSort[h]) == "Int" {
					kt = vc.valRef(k, env)
				}
				return target{heap: h, key: kt, field: -1}, true
			}
		}
	case "unop":
		if e.Name == "*" {
			p := vc.evalSpec(e.Args[0], env)
			l := vc.locOf(p)
			if l.Idx != "" || len(l.Path) > 0 {
				vc.errorf("modifies: interior pointer target %s", e)
				return target{}, false
			}
			return target{heap: l.Heap, key: l.Ref, field: -1, cell: derefType(p.typ)}, true
		}
	case "call":
		if fn, ok := dottedName(e.Args[0]); ok && fn == "pointee" {
			x := vc.evalSpec(e.Args[1], env)
			if x.dyn != nil && x.dyn.typ != nil {
				l := vc.locOf(*x.dyn)
				if l.Idx == "" && len(l.Path) == 0 {
					return target{heap: l.Heap, key: l.Ref, field: -1, cell: derefType(x.dyn.typ)}, true
				}
			}
			vc.errorf("modifies: pointee() of an unknown or interior pointer")
			return target{}, false
		}
		if fn, ok := dottedName(e.Args[0]); ok && fn == "elems" {
			s := vc.evalSpec(e.Args[1], env)
			if s.typ != nil {
				if sl, ok := s.typ.Underlying().(*types.Slice); ok && vc.sortOf(s.typ) == "Slice" {
					return target{heap: vc.arrHeap(sl.Elem()), key: app("s_ref", s.t), field: -1}, true
				}
				if vc.sortOf(s.typ) == "Bytes" {
					// value mode: a byte string is a value - nothing a callee does to its copy is visible here
					return target{}, false
				}
			}
		}
	case "select":
		p := vc.evalSpec(e.Args[0], env)
		if p.typ != nil {
			if pt, ok := p.typ.Underlying().(*types.Pointer); ok {
				if st, ok := pt.Elem().Underlying().(*types.Struct); ok {
					for i := 0; i < st.NumFields(); i++ {
						if st.Field(i).Name() == e.Name {
							l := vc.locOf(p)
							return target{heap: l.Heap, key: l.Ref, field: i, ftype: st.Field(i).Type(), cell: pt.Elem()}, true
						}
					}
				}
			}
		}
	}
	vc.errorf("modifies: unsupported target %s", e)
	return target{}, false
}

// resolveTargets expands wildcard targets (kv.* = every ghost whose name starts with kv.)
func (vc *VC) resolveTargets(e *Expr, env *SpecEnv) []target {
	if e.Op == "binop" && e.Name == "*" && e.Args[1] == nil {
		return nil
	}
	if e.Op == "wild" {
		var out []target
		pre := ghostName(e.Name) + "_"
		var names []string
		for k := range vc.ghost {
			if strings.HasPrefix(k, pre) {
				names = append(names, k)
			}
		}
		sort.Strings(names)
		for _, k := range names {
			out = append(out, target{heap: k, whole: true, field: -1})
		}
		if len(out) == 0 {
			vc.errorf("modifies: no ghost matches %s.*", e.Name)
		}
		return out
	}
	if e.Op == "call" {
		if fn, ok := dottedName(e.Args[0]); ok && fn == "elems" && len(e.Args) == 2 {
			if m := vc.evalSpec(e.Args[1], env); m.typ != nil {
				if mt, ok := m.typ.Underlying().(*types.Map); ok {
					// elems(m) for a Go map: its entries (values and presence)
					hv, hp, _, _ := vc.mapHeaps(mt)
					return []target{{heap: hv, key: m.t, field: -1}, {heap: hp, key: m.t, field: -1}}
				}
			}
		}
	}
	if tg, ok := vc.resolveTarget(e, env); ok {
		return []target{tg}
	}
	return nil
}

// knownSibling: a recorded finding with a witness class - the obligation must still hold for every entry
// state outside the class, so a different violation of the same clause is still reported.
func (vc *VC) knownSibling(o *Obligation, name string, guard T, goal func() T) {
	if o == nil || vc.eng.known == nil {
		return
	}
	for i := range vc.eng.known.Findings {
		kf := &vc.eng.known.Findings[i]
		if kf.Status != "known" || kf.ClassSpec == "" || !kf.matches(o.Name) {
			continue
		}
		ce, err := parseSpec(kf.ClassSpec)
		if err != nil {
			vc.errorf("known finding %s: class_spec: %v", kf.ID, err)
			continue
		}
		cls := vc.evalBool(ce, vc.topEnv(vc.entry))
		o.KnownID = kf.ID
		if kf.WitnessSpec != "" {
			if we, err := parseSpec(kf.WitnessSpec); err == nil {
				o.Witness = vc.evalBool(we, vc.topEnv(vc.entry))
			} else {
				vc.errorf("known finding %s: witness_spec: %v", kf.ID, err)
			}
		}
		vc.oblige(o.Kind, fmt.Sprintf("%s.outside[%s]", name, kf.ID), and(guard, not(cls)), goal())
	}
}

// isLibState: the heap holds library-private state (declared by `//@ library_state` in the package's contract
// file): no contract constrains it, no frame is demanded for it, every call havocs it.
func (vc *VC) isLibState(heap string) bool {
	if vc.fn == nil || vc.fn.Pkg == nil {
		return false
	}
	return vc.eng.libState[vc.fn.Pkg.Pkg.Path()][heap]
}

func (fr *frame) havocTarget(e *Expr, env *SpecEnv, cur *State) {
	for _, tg := range fr.vc.resolveTargets(e, env) {
		fr.havocOne(tg, cur)
	}
}

func (fr *frame) havocOne(tg target, cur *State) {
	vc := fr.vc
	srt := vc.heapSort[tg.heap]
	switch {
	case tg.whole:
		c := vc.fresh("hv_"+tg.heap, srt)
		cur.heaps[tg.heap] = c
		if gt := vc.ghostType[tg.heap]; gt != nil {
			fr.pendingField = append(fr.pendingField, pendF{c, gt})
		} else {
			fr.pendingWF = append(fr.pendingWF, [2]string{c, tg.heap})
		}
	case tg.field < 0:
		c := vc.fresh("hv", arrayElemSort(srt))
		cur.heaps[tg.heap] = sto(vc.heapGet(cur, tg.heap), tg.key, c)
		fr.pendingCell = append(fr.pendingCell, [2]string{c, tg.heap})
	default:
		l := &Loc{Heap: tg.heap, Ref: tg.key, Path: []pathElem{{Field: tg.field, In: tg.cell}}}
		c := vc.fresh("hv", vc.sortOf(tg.ftype))
		vc.storeLoc(cur, l, c)
		fr.pendingField = append(fr.pendingField, pendF{c, tg.ftype})
	}
}

// verifyFunc generates all obligations for one function under contract.
func (e *Engine) verifyFunc(fn *ssa.Function, con *Contract) *VC {
	// pass 1..n: discover loop-modified heaps; final pass: real obligations
	var mod map[*ssa.BasicBlock]map[string]bool
	var heapSorts map[string]string
	var heapElems map[string]types.Type
	var heapRowsM map[string]bool
	var heapMapKeys map[string]string
	var ghostSet map[string]bool
	nloops := len(loopOrdinals(fn))
	passes := 1
	if nloops > 0 {
		passes = 3
	}
	var vc *VC
	for pass := 0; pass < passes; pass++ {
		vc = e.newVC(fn, con)
		vc.dry = pass < passes-1
		if mod != nil {
			vc.modLoops = mod
		}
		// re-register heaps discovered by earlier passes
		var hs []string
		for k := range heapSorts {
			hs = append(hs, k)
		}
		sort.Strings(hs)
		for _, k := range hs {
			if ghostSet[k] {
				continue
			}
			if heapElems[k] != nil {
				vc.sortOf(heapElems[k]) // declare the element datatype before the heap constant
			}
			vc.heapSort[k] = heapSorts[k]
			vc.heapElem[k] = heapElems[k]
			vc.heapRows[k] = heapRowsM[k]
			if ks, ok := heapMapKeys[k]; ok {
				if vc.heapMapKey == nil {
					vc.heapMapKey = map[string]string{}
				}
				vc.heapMapKey[k] = ks
			}
			vc.decl(k+"@0", heapSorts[k])
			vc.preHeaps = append(vc.preHeaps, k)
		}
		e.runPass(vc)
		if vc.dry {
			mod = map[*ssa.BasicBlock]map[string]bool{}
			for h, m := range vc.modFound {
				mod[h] = m
			}
			for h := range loopOrdinals(fn) {
				if mod[h] == nil {
					mod[h] = map[string]bool{}
				}
			}
			heapSorts = vc.heapSort
			heapElems = vc.heapElem
			heapRowsM = vc.heapRows
			heapMapKeys = vc.heapMapKey
			ghostSet = vc.ghost
		}
	}
	return vc
}

func (e *Engine) runPass(vc *VC) {
	fn, con := vc.fn, vc.con
	vc.decl("alloc@0", "Int")
	vc.assume(lt("0", "alloc@0"))
	for _, k := range vc.preHeaps {
		vc.heapWF(k+"@0", k, "alloc@0")
	}
	vc.registerGhosts()
	if vc.mode == HeapMode {
		vc.ensureHeap("BIG", "Int", nil, false)
	}
	entry := &State{heaps: map[string]T{}, alloc: "alloc@0"}
	vc.entry = entry
	// parameters
	var args []SV
	names := con.Params
	if con.Recv != "" {
		names = append([]string{con.Recv}, con.Params...)
	}
	if len(names) != len(fn.Params) {
		vc.errorf("contract header of %s lists %d parameters, function has %d", con.Key, len(names), len(fn.Params))
	}
	for i, p := range fn.Params {
		c := "p_" + sanitize(p.Name())
		if vc.declared[c] {
			c = fmt.Sprintf("p%d_%s", i, sanitize(p.Name()))
		}
		vc.decl(c, vc.sortOf(p.Type()))
		vc.assume(vc.typeFacts(c, p.Type(), "alloc@0", 0))
		sv := SV{t: c, typ: p.Type()}
		args = append(args, sv)
		if i < len(names) {
			vc.params[names[i]] = sv
		}
		if i == 0 && con.Recv != "" {
			if _, ok := p.Type().Underlying().(*types.Pointer); ok {
				vc.assume(not(eq(c, "0")))
				vc.nonnil[c] = true
			}
		}
	}
	// free variables of a function literal verified on its own: each is the address of a cell that exists at entry
	// and holds an arbitrary value of its type; clauses mention the variable by its source name
	var fvPtrs []SV
	for i, fv := range fn.FreeVars {
		c := fmt.Sprintf("fv%d_%s", i, sanitize(fv.Name()))
		vc.decl(c, "Int")
		vc.assume(and(lt("0", c), lt(c, "alloc@0")))
		for _, o := range fvPtrs {
			vc.assume(not(eq(o.t, c)))
		}
		psv := SV{t: c, typ: fv.Type()}
		fvPtrs = append(fvPtrs, psv)
		vc.nonnil[c] = true
		if _, isPtr := fv.Type().Underlying().(*types.Pointer); isPtr {
			vc.params[fv.Name()] = SV{t: vc.loadLoc(entry, vc.locOf(psv)), typ: derefType(fv.Type())}
		}
	}
	env := vc.topEnv(entry)
	if len(con.Defines) > 0 {
		// defined functions of the pre-state: their axioms hold, and that they are well defined (equal keys
		// carry equal values) is an implicit precondition checked at every call site
		axs, wds := vc.instantiateDefines(con, env)
		for _, t := range append(wds, axs...) {
			vc.assume(t)
		}
	}
	// package invariants and requires
	for _, cl := range con.Clauses {
		if cl.Kind == "requires" {
			vc.assume(vc.evalHyp(cl.Expr, env, tTrue))
		}
	}
	for _, u := range con.Uses {
		if lc := vc.eng.contracts["lemma."+u]; lc != nil && lc.Lemma {
			vc.assume(vc.lemmaAxiom(lc))
			vc.used["lemma."+u] = true
		}
	}
	for _, inv := range vc.invariantsOf(con) {
		ienv := *env
		ienv.pkg = vc.eng.typesPkg[inv.Pkg]
		vc.assume(vc.evalHyp(inv.Expr, &ienv, tTrue))
		vc.assumes["package invariant "+inv.Name+" assumed at entry (established by package init, preserved by every function under contract)"] = true
	}
	for _, cl := range con.Clauses {
		if cl.Kind != "instance" {
			continue
		}
		// instance lemma(args): the separately proved lemma, instantiated at these terms
		if cl.Expr.Op != "call" {
			vc.errorf("instance: expected lemma(args)")
			continue
		}
		ln, _ := dottedName(cl.Expr.Args[0])
		lc := vc.eng.contracts["lemma."+ln]
		if lc == nil || !lc.Lemma || len(lc.Params) != len(cl.Expr.Args)-1 {
			vc.errorf("instance: unknown lemma %s or wrong arity", ln)
			continue
		}
		lenv := &SpecEnv{vc: vc, vars: map[string]SV{}, cur: entry, old: entry, mode: vc.mode}
		for i, pn := range lc.Params {
			lenv.vars[pn] = vc.evalSpec(cl.Expr.Args[i+1], env)
		}
		var reqs, enss []T
		for _, lcl := range lc.Clauses {
			switch lcl.Kind {
			case "requires":
				reqs = append(reqs, vc.evalBool(lcl.Expr, lenv))
			case "ensures":
				enss = append(enss, vc.evalBool(lcl.Expr, lenv))
			}
		}
		vc.assume(implies(and(reqs...), and(enss...)))
		vc.used["lemma."+ln] = true
	}
	for _, cl := range con.Clauses {
		if cl.Kind == "hint" {
			t := vc.evalSpec(cl.Expr, env)
			h := vc.fresh("hint", t.sortIn(vc))
			vc.assume(eq(h, t.t))
		}
	}
	if !vc.dry {
		o := vc.oblige("cover", "requires.sat", tTrue, tFalse)
		o.Expect = "sat"
	}
	fr := vc.newFrame(fn, 0, true)
	vc.stack = []*ssa.Function{fn}
	for i, fv := range fn.FreeVars {
		fr.env[fv] = fvPtrs[i]
	}
	fr.execBody(args, entry.clone(), tTrue)
	if vc.dry {
		return
	}
	// return sites
	var panicsCl []*Clause
	for _, cl := range con.Clauses {
		if cl.Kind == "panics" {
			panicsCl = append(panicsCl, cl)
		}
	}
	rnames := con.Results
	// return sites are numbered in source order
	sort.SliceStable(fr.rets, func(i, j int) bool { return fr.rets[i].pos < fr.rets[j].pos })
	for k, r := range fr.rets {
		if r.pos.IsValid() {
			vc.retLines = append(vc.retLines, fmt.Sprintf("ret%d=line %d", k+1, fn.Prog.Fset.Position(r.pos).Line))
		} else {
			vc.retLines = append(vc.retLines, fmt.Sprintf("ret%d=end", k+1))
		}
		penv := vc.topEnv(r.st)
		for j, v := range r.vals {
			if j < len(rnames) {
				penv.vars[rnames[j]] = v
			}
			penv.vars[fmt.Sprintf("r%d", j)] = v
		}
		save := len(vc.facts)
		i := 0
		for _, cl := range con.Clauses {
			if cl.Kind != "ensures" {
				continue
			}
			i++
			tag := fmt.Sprint(i)
			if cl.Tag != "" {
				tag = cl.Tag
			}
			if cl.OnlyProp != "" && vc.eng.prop != "" && vc.eng.prop != cl.OnlyProp {
				continue
			}
			o := vc.oblige("post", fmt.Sprintf("ret%d.post.%s", k+1, tag), r.guard, vc.evalGoal(cl.Expr, penv))
			vc.knownSibling(o, fmt.Sprintf("ret%d.post.%s", k+1, tag), r.guard, func() T { return vc.evalGoal(cl.Expr, penv) })
		}
		for _, inv := range vc.invariantsOf(con) {
			ienv := *penv
			ienv.pkg = vc.eng.typesPkg[inv.Pkg]
			vc.oblige("post", fmt.Sprintf("ret%d.inv.%s", k+1, inv.Name), r.guard, vc.evalGoal(inv.Expr, &ienv))
		}
		if !vc.lenient() {
			for j, cl := range panicsCl {
				vc.oblige("panic", fmt.Sprintf("ret%d.nopanic%d", k+1, j+1), r.guard, not(vc.evalBool(cl.Expr, vc.topEnv(vc.entry))))
			}
		}
		vc.frameObligations(k+1, r, env)
		isDead := false
		for _, d := range con.Dead {
			if d == fmt.Sprintf("ret%d", k+1) {
				isDead = true
			}
		}
		if isDead {
			// declared unreachable (e.g. an error path of a callee whose contract rules the error out)
			vc.oblige("dead", fmt.Sprintf("ret%d.unreachable", k+1), r.guard, tFalse)
			continue
		}
		c := vc.oblige("cover", fmt.Sprintf("ret%d.reachable", k+1), r.guard, tFalse)
		if c != nil {
			c.Expect = "sat"
			if c.Answer == "unsat" && c.Solver == "syntactic" {
				c.Answer = ""
				c.Solver = ""
			}
		}
		_ = save
	}
	// panic sites
	if !vc.lenient() || con.PanicsDeclared {
		for k, ps := range vc.panics {
			var alts []T
			for _, cl := range panicsCl {
				m := vc.matchExc(ps, cl)
				if m == tFalse {
					continue
				}
				alts = append(alts, and(m, vc.evalBool(cl.Expr, vc.topEnv(vc.entry))))
			}
			for _, cl := range con.Clauses {
				if cl.Kind != "panics_site" {
					continue
				}
				m := vc.matchExc(ps, cl)
				if m == tFalse {
					continue
				}
				alts = append(alts, and(m, vc.evalBool(cl.Expr, vc.topEnv(ps.st))))
			}
			if len(con.PanicsKeep) == 0 {
				vc.panicWhat = append(vc.panicWhat, fmt.Sprintf("panic%d=%s", k+1, ps.what))
			}
			o := vc.oblige("panic", fmt.Sprintf("panic%d.declared", k+1), ps.guard, or(alts...))
			if o != nil {
				o.NFacts = len(vc.facts)
			}
		}
	}
	// panics_keep: a panic anywhere below this function finds the listed ghost views at their entry values
	if len(con.PanicsKeep) > 0 {
		var gs []string
		for g := range vc.ghost {
			for _, p := range con.PanicsKeep {
				if strings.HasPrefix(g, ghostName(p)) {
					gs = append(gs, g)
					break
				}
			}
		}
		sort.Strings(gs)
		for k, ps := range vc.panics {
			var eqs []T
			for _, g := range gs {
				if cur := vc.heapGet(ps.st, g); cur != g+"@0" {
					eqs = append(eqs, eq(cur, g+"@0"))
				}
			}
			o := vc.oblige("panic", fmt.Sprintf("panic%d.notrace", k+1), ps.guard, and(eqs...))
			if o != nil {
				o.NFacts = len(vc.facts)
			}
			vc.panicWhat = append(vc.panicWhat, fmt.Sprintf("panic%d=%s", k+1, ps.what))
		}
	}
	if len(fr.rets) == 0 && len(vc.panics) == 0 {
		vc.errorf("%s: no exit reached", con.Key)
	}
}

func (vc *VC) matchExc(ps panicSite, cl *Clause) T {
	if cl.Exc == "" {
		return tTrue
	}
	if strings.HasPrefix(ps.val.srt, "exc:") {
		if ps.val.srt == "exc:"+cl.Exc {
			return tTrue
		}
		return tFalse
	}
	name := cl.Exc
	if !strings.Contains(name, ".") && name != "string" && name != "error" {
		name = strings.Replace(vc.fn.Pkg.Pkg.Path(), repoMod+"/", "", 1) + "." + name
	}
	if ps.val.typ == nil {
		return tFalse
	}
	return eq(app("i_type", ps.val.t), num(int64(vc.typeIDByName(name))))
}

// frameObligations: every heap the function touched is unchanged outside its modifies set.
func (vc *VC) frameObligations(ret int, r retSite, entryEnv *SpecEnv) {
	if vc.con.ModAll {
		return
	}
	var targets []target
	for _, cl := range vc.con.Clauses {
		if cl.Kind != "modifies" {
			continue
		}
		for _, me := range cl.Exprs {
			targets = append(targets, vc.resolveTargets(me, entryEnv)...)
		}
	}
	var names []string
	for k := range vc.heapSort {
		names = append(names, k)
	}
	sort.Strings(names)
	for _, k := range names {
		final := vc.heapGet(r.st, k)
		if final == k+"@0" || k == "Hrng" || vc.isLibState(k) { // Hrng: positions of this function's own map iterators
			continue
		}
		whole := false
		var keys []T
		fields := map[T][]target{}
		for _, tg := range targets {
			if tg.heap != k {
				continue
			}
			if tg.whole {
				whole = true
			} else if tg.field < 0 {
				keys = append(keys, tg.key)
			} else {
				fields[tg.key] = append(fields[tg.key], tg)
			}
		}
		if whole {
			continue
		}
		if !strings.HasPrefix(vc.heapSort[k], "(Array ") {
			// scalar ghost: must be unchanged unless listed
			vc.oblige("frame", fmt.Sprintf("ret%d.frame.%s", ret, k), r.guard, eq(final, k+"@0"))
			continue
		}
		ks := arrayKeySort(vc.heapSort[k])
		sk := vc.fresh("fr_"+k, ks)
		conds := []T{}
		if ks == "Int" && !vc.ghost[k] {
			conds = append(conds, le("0", sk), lt(sk, "alloc@0"))
		}
		for _, key := range keys {
			conds = append(conds, not(eq(sk, key)))
		}
		var fkeys []T
		for fk := range fields {
			fkeys = append(fkeys, fk)
			conds = append(conds, not(eq(sk, fk)))
		}
		sort.Strings(fkeys)
		vc.oblige("frame", fmt.Sprintf("ret%d.frame.%s", ret, k), and(append([]T{r.guard}, conds...)...), eq(sel(final, sk), sel(k+"@0", sk)))
		for _, fk := range fkeys {
			tgs := fields[fk]
			st := tgs[0].cell.Underlying().(*types.Struct)
			s := vc.sortOf(tgs[0].cell)
			var eqs []T
			for i := 0; i < st.NumFields(); i++ {
				listed := false
				for _, tg := range tgs {
					if tg.field == i {
						listed = true
					}
				}
				if !listed {
					acc := fmt.Sprintf("%s_f%d", s, i)
					eqs = append(eqs, eq(app(acc, sel(final, fk)), app(acc, sel(k+"@0", fk))))
				}
			}
			vc.oblige("frame", fmt.Sprintf("ret%d.frame.%s.fields", ret, k), r.guard, and(eqs...))
		}
	}
}

// buildQuery assembles the SMT-LIB text for one obligation.
func (vc *VC) buildQuery(o *Obligation) string {
	var sb strings.Builder
	sb.WriteString("; " + o.Name + "\n")
	sb.WriteString("(set-option :produce-models true)\n")
	sb.WriteString("(set-logic ALL)\n")
	// built-in sorts: only the sections this VC mentions (unused quantified axioms make the
	// solvers' instantiation heuristics unstable)
	var body strings.Builder
	for _, d := range vc.decls {
		body.WriteString(d)
		body.WriteString("\n")
	}
	nf := o.NFacts
	if nf > len(vc.facts) {
		nf = len(vc.facts)
	}
	for _, f := range vc.facts[:nf] {
		body.WriteString(f)
		body.WriteString("\n")
	}
	body.WriteString(o.Goal)
	for _, h := range o.Hints {
		body.WriteString(h)
	}
	// base-prelude functions mentioned by this VC select the prelude axioms about them
	bt := body.String()
	used := map[string]bool{} // local copy: queries are built concurrently
	for k, v := range vc.preludeUsed {
		used[k] = v
	}
	for _, bf := range vc.eng.baseFuncs {
		if !used[bf] && strings.Contains(bt, bf) {
			used[bf] = true
		}
	}
	body.WriteString(vc.eng.preludeText(used))
	basePrelude := neededBase(body.String())
	if o.Expect == "sat" {
		// reachability/vacuity covers: quantified axioms are dropped (they only constrain
		// uninterpreted spec functions and are satisfiable by the intended model), which keeps
		// the query decidable; quantified facts of the path itself stay.
		for _, ln := range strings.Split(basePrelude, "\n") {
			if !strings.HasPrefix(ln, "(assert (forall") {
				sb.WriteString(ln + "\n")
			}
		}
		sb.WriteString(vc.eng.preludeTextOpt(used, false))
	} else {
		sb.WriteString(basePrelude)
		sb.WriteString(vc.eng.preludeText(used))
	}
	for _, d := range vc.decls {
		sb.WriteString(d)
		sb.WriteString("\n")
	}
	n := o.NFacts
	if n > len(vc.facts) {
		n = len(vc.facts)
	}
	for _, f := range vc.facts[:n] {
		if o.Expect == "sat" && strings.HasPrefix(f, "(forall") {
			continue
		}
		sb.WriteString("(assert " + f + ")\n")
	}
	for _, h := range o.Hints {
		sb.WriteString("(assert " + h + ")\n")
	}
	sb.WriteString("(assert (not " + o.Goal + "))\n")
	sb.WriteString("(check-sat)\n")
	return sb.String()
}

func (e *Engine) invariantsOf(con *Contract) []*Invariant {
	var out []*Invariant
	for _, u := range con.Uses {
		if inv, ok := e.invariants[u]; ok {
			out = append(out, inv)
		}
	}
	return out
}

// verifyLemma proves a pure lemma (no code): requires ==> ensures for all parameter values.
func (e *Engine) verifyLemma(con *Contract) *VC {
	vc := e.newVCNoFn(con)
	vc.decl("alloc@0", "Int")
	env := &SpecEnv{vc: vc, vars: map[string]SV{}, cur: &State{heaps: map[string]T{}, alloc: "alloc@0"}, mode: HeapMode}
	env.old = env.cur
	vc.entry = env.cur
	for i, p := range con.Params {
		c := "l_" + sanitize(p)
		srt := specSort(con.ParamSorts[i])
		vc.decl(c, srt)
		env.vars[p] = SV{t: c, srt: srt}
		o := len(vc.paramOrder)
		_ = o
		vc.paramOrder = append(vc.paramOrder, p)
	}
	for _, cl := range con.Clauses {
		if cl.Kind == "requires" {
			vc.assume(vc.evalBool(cl.Expr, env))
		}
	}
	c := vc.oblige("cover", "requires.sat", tTrue, tFalse)
	c.Expect = "sat"
	i := 0
	for _, cl := range con.Clauses {
		if cl.Kind == "ensures" {
			i++
			tag := fmt.Sprint(i)
			if cl.Tag != "" {
				tag = cl.Tag
			}
			o := vc.oblige("lemma", "holds."+tag, tTrue, vc.evalBool(cl.Expr, env))
			for _, p := range con.Params {
				o.Extra = append(o.Extra, "l_"+sanitize(p))
			}
		}
	}
	return vc
}

func (e *Engine) newVCNoFn(con *Contract) *VC {
	vc := &VC{eng: e, con: con, declared: map[string]bool{}, heapSort: map[string]string{}, heapElem: map[string]types.Type{}, heapRows: map[string]bool{}, ghost: map[string]bool{},
		counters: map[string]int{}, assumes: map[string]bool{}, strConst: map[string]string{}, typeIDs: map[string]int{},
		params: map[string]SV{}, modLoops: map[*ssa.BasicBlock]map[string]bool{}, modFound: map[*ssa.BasicBlock]map[string]bool{},
		nonnil: map[T]bool{}, used: map[string]bool{}, preludeUsed: map[string]bool{}, ghostType: map[string]types.Type{}}
	vc.name = con.Key
	return vc
}

// lemmaAxiom is the quantified statement of a proved lemma, for contracts that `uses` it.
func (vc *VC) lemmaAxiom(con *Contract) T {
	env := &SpecEnv{vc: vc, vars: map[string]SV{}, cur: vc.entry, old: vc.entry, mode: vc.mode, bound: map[string]SV{}}
	var binders []string
	for i, p := range con.Params {
		srt := specSort(con.ParamSorts[i])
		name := "q_" + p
		binders = append(binders, "("+name+" "+srt+")")
		env.bound[p] = SV{t: name, srt: srt}
	}
	var reqs, enss, pats []T
	for _, cl := range con.Clauses {
		switch cl.Kind {
		case "requires":
			reqs = append(reqs, vc.evalBool(cl.Expr, env))
		case "ensures":
			enss = append(enss, vc.evalBool(cl.Expr, env))
		case "trigger":
			pats = append(pats, vc.evalSpec(cl.Expr, env).t)
		}
	}
	body := implies(and(reqs...), and(enss...))
	if len(pats) > 0 {
		body = "(! " + body + " :pattern (" + strings.Join(pats, " ") + "))"
	}
	return "(forall (" + strings.Join(binders, " ") + ") " + body + ")"
}

var baseSections [][2]string

func init() {
	cur := ""
	key := ""
	flush := func() {
		if cur != "" {
			baseSections = append(baseSections, [2]string{key, cur})
		}
		cur = ""
	}
	for _, ln := range strings.Split(basePrelude, "\n") {
		switch {
		case strings.HasPrefix(ln, "(declare-datatypes ((Slice"):
			flush()
			key = "Slice|s_ref|s_len|s_off|s_cap|mk_slice"
		case strings.HasPrefix(ln, "(declare-datatypes ((Iface"):
			flush()
			key = "Iface|i_type|i_val|mk_iface"
		case strings.HasPrefix(ln, "(declare-sort Str"):
			flush()
			key = "Str|str_"
		case strings.HasPrefix(ln, "(declare-sort Bytes"):
			flush()
			key = "Bytes|bytes_"
		case strings.HasPrefix(ln, "(declare-sort Coins"):
			flush()
			key = "Coins|coins_"
		case strings.HasPrefix(ln, "(declare-sort Ctx"):
			flush()
			key = "Ctx|ctx_"
		case strings.HasPrefix(ln, "(define-fun tdiv"):
			flush()
			key = ""
		}
		cur += ln + "\n"
	}
	flush()
}

func neededBase(text string) string {
	need := map[int]bool{}
	has := func(keys string) bool {
		if keys == "" {
			return true
		}
		for _, k := range strings.Split(keys, "|") {
			if strings.Contains(text, k) {
				return true
			}
		}
		return false
	}
	for i, sec := range baseSections {
		if has(sec[0]) {
			need[i] = true
		}
	}
	// Coins and Ctx sections mention Str
	for i, sec := range baseSections {
		if need[i] && (strings.HasPrefix(sec[0], "Coins") || strings.HasPrefix(sec[0], "Ctx")) {
			for j, s2 := range baseSections {
				if strings.HasPrefix(s2[0], "Str") {
					need[j] = true
				}
			}
		}
	}
	var sb strings.Builder
	for i, sec := range baseSections {
		if need[i] {
			sb.WriteString(sec[1])
		}
	}
	return sb.String()
}

// package invariants talk about the heap representation; they do not apply in value mode
func (vc *VC) invariantsOf(con *Contract) []*Invariant {
	var out []*Invariant
	for _, inv := range vc.eng.invariantsOf(con) {
		if pathMode(inv.Pkg) == vc.mode {
			out = append(out, inv)
		}
	}
	return out
}

// onlySliceTypes: every Go type mentioned in a ghost sort is a slice type ($[]byte): such a ghost has the same meaning
// (sort Slice) in heap mode.
func onlySliceTypes(srt string) bool {
	for _, tok := range sortAtoms(srt) {
		if strings.HasPrefix(tok, "$") && !strings.HasPrefix(tok, "$[]") {
			return false
		}
	}
	return true
}
