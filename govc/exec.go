package main

// Symbolic execution of go/ssa function bodies into verification conditions.

import (
	"fmt"
	"go/ast"
	"go/constant"
	"go/token"
	"go/types"
	"math/big"
	"sort"
	"strings"

	"golang.org/x/tools/go/ssa"
)

type retSite struct {
	guard T
	vals  []SV
	st    *State
	nf    int
	pos   token.Pos
}

type deferred struct {
	call *ssa.CallCommon
	args []SV
	fnv  SV
}

type frame struct {
	vc     *VC
	fn     *ssa.Function
	env    map[ssa.Value]SV
	rets   []retSite
	depth  int
	top    bool
	defers []deferred
	armed  T // guard under which a closure calling recover() has been deferred so far ("" = never)
	loops  map[*ssa.BasicBlock]*loopInfo
	// guard of the block being executed (may be strengthened by calls)
	g T
	// havocked heap constants awaiting their well-formedness facts (need the post-call frontier)
	pendingWF    [][2]string
	pendingCell  [][2]string
	pendingField []pendF
}

type pendF struct {
	c   string
	typ types.Type
}

// flushWF emits well-formedness facts for constants havocked by a call, relative to the
// allocation frontier after the call.
func (fr *frame) flushWF(front T) {
	vc := fr.vc
	for _, p := range fr.pendingWF {
		vc.heapWF(p[0], p[1], front)
	}
	for _, p := range fr.pendingCell {
		elem := vc.heapElem[p[1]]
		if elem == nil {
			continue
		}
		if ks, isMap := vc.heapMapKey[p[1]]; isMap {
			x := "(select " + p[0] + " wf_k)"
			f := vc.typeFacts(x, elem, front, 0)
			if f != tTrue {
				vc.assume("(forall ((wf_k " + ks + ")) (! " + f + " :pattern (" + x + ")))")
			}
		} else if vc.heapRows[p[1]] {
			x := "(select " + p[0] + " wf_i)"
			f := vc.typeFacts(x, elem, front, 0)
			if f != tTrue {
				vc.assume("(forall ((wf_i Int)) (! " + f + " :pattern (" + x + ")))")
			}
		} else {
			vc.assume(vc.typeFacts(p[0], elem, front, 0))
		}
	}
	for _, p := range fr.pendingField {
		vc.assume(vc.typeFacts(p.c, p.typ, front, 0))
	}
	fr.pendingWF, fr.pendingCell, fr.pendingField = nil, nil, nil
}

type loopInfo struct {
	ord     int
	phis    map[*ssa.Phi]SV
	st      *State
	guard   T
	dec     T
	hasDec  bool
	backSts []*State
	frameIn    *State
	frameBound T
	entryAlloc T
	frameHeaps []string
}

const maxInlineDepth = 6

func (vc *VC) newFrame(fn *ssa.Function, depth int, top bool) *frame {
	return &frame{vc: vc, fn: fn, env: map[ssa.Value]SV{}, depth: depth, top: top, loops: map[*ssa.BasicBlock]*loopInfo{}}
}

// rpo returns blocks in reverse postorder ignoring back edges, plus the set of loop headers.
func rpo(fn *ssa.Function) ([]*ssa.BasicBlock, map[*ssa.BasicBlock]bool) {
	seen := map[*ssa.BasicBlock]bool{}
	var post []*ssa.BasicBlock
	var dfs func(b *ssa.BasicBlock)
	dfs = func(b *ssa.BasicBlock) {
		seen[b] = true
		for _, s := range b.Succs {
			if !seen[s] {
				dfs(s)
			}
		}
		post = append(post, b)
	}
	if len(fn.Blocks) > 0 {
		dfs(fn.Blocks[0])
	}
	for i, j := 0, len(post)-1; i < j; i, j = i+1, j-1 {
		post[i], post[j] = post[j], post[i]
	}
	headers := map[*ssa.BasicBlock]bool{}
	for _, b := range post {
		for _, s := range b.Succs {
			if s.Dominates(b) {
				headers[s] = true
			}
		}
	}
	return post, headers
}

func hasLoops(fn *ssa.Function) bool {
	_, h := rpo(fn)
	return len(h) > 0
}

// loopOrdinals numbers loop headers by block index (source order).
func loopOrdinals(fn *ssa.Function) map[*ssa.BasicBlock]int {
	_, hs := rpo(fn)
	var list []*ssa.BasicBlock
	for h := range hs {
		list = append(list, h)
	}
	sort.Slice(list, func(i, j int) bool { return list[i].Index < list[j].Index })
	out := map[*ssa.BasicBlock]int{}
	for i, h := range list {
		out[h] = i + 1
	}
	return out
}

// execBody runs fn's body from the given state; results are collected in fr.rets and
// panics in vc.panics.
func (fr *frame) execBody(args []SV, st *State, guard T) {
	vc := fr.vc
	fn := fr.fn
	if len(fn.Blocks) == 0 {
		vc.errorf("function %s has no body", funcKey(fn))
		return
	}
	for i, p := range fn.Params {
		if i < len(args) {
			fr.env[p] = args[i]
		}
	}
	order, headers := rpo(fn)
	ords := loopOrdinals(fn)
	incoming := map[*ssa.BasicBlock][]edgeState{}
	incoming[fn.Blocks[0]] = []edgeState{{guard: guard, st: st}}
	for _, b := range order {
		edges := incoming[b]
		if len(edges) == 0 {
			continue
		}
		var cur *State
		var g T
		if headers[b] {
			cur, g = fr.enterLoop(b, edges, ords[b])
		} else {
			cur, g = vc.mergeStates(edges)
			if len(edges) > 1 {
				gc := vc.fresh("g", "Bool")
				vc.assume(eq(gc, g))
				g = gc
			}
			for _, ins := range b.Instrs {
				phi, ok := ins.(*ssa.Phi)
				if !ok {
					break
				}
				fr.env[phi] = fr.mergePhi(phi, edges)
			}
		}
		if g == tFalse {
			continue
		}
		fr.g = g
		for _, ins := range b.Instrs {
			if _, ok := ins.(*ssa.Phi); ok {
				continue
			}
			if fr.g == tFalse {
				break
			}
			fr.execInstr(ins, cur, incoming, headers)
		}
	}
}

func predIndex(b, from *ssa.BasicBlock) int {
	for i, p := range b.Preds {
		if p == from {
			return i
		}
	}
	return -1
}

func (fr *frame) mergePhi(phi *ssa.Phi, edges []edgeState) SV {
	b := phi.Block()
	var vals []SV
	for _, e := range edges {
		i := predIndex(b, e.from)
		vals = append(vals, fr.val(phi.Edges[i]))
	}
	res := vals[len(vals)-1]
	allSame := true
	for _, v := range vals {
		if v.t != vals[0].t {
			allSame = false
		}
		if v.loc != nil || v.tup != nil {
			if len(vals) > 1 && !sameLoc(v, vals[0]) {
				fr.vc.errorf("phi of interior pointers/tuples in %s", funcKey(fr.fn))
			}
		}
	}
	if allSame {
		r := vals[0]
		r.typ = phi.Type()
		return r
	}
	t := res.t
	for i := len(vals) - 2; i >= 0; i-- {
		t = ite(edges[i].guard, vals[i].t, t)
	}
	out := SV{t: fr.vc.nameTerm("phi", t, fr.vc.sortOf(phi.Type())), typ: phi.Type()}
	if res.fn != nil {
		out.fn = nil
	}
	if fr.vc.sortOf(phi.Type()) == "Iface" {
		out.dyn = fr.vc.mergeDyn(out, vals)
	}
	return out
}

func sameLoc(a, b SV) bool {
	if a.loc == nil || b.loc == nil {
		return a.loc == b.loc
	}
	return a.loc.Heap == b.loc.Heap && a.loc.Ref == b.loc.Ref && a.loc.Idx == b.loc.Idx && len(a.loc.Path) == len(b.loc.Path)
}

// ---------------------------------------------------------------- loops

func (fr *frame) loopEnv(h *ssa.BasicBlock, phiVals map[*ssa.Phi]SV, cur *State) *SpecEnv {
	vc := fr.vc
	env := vc.topEnv(cur)
	if fr.top {
		env.entryVars = vc.params
	}
	if !fr.top {
		// inlined function with a loop: only its own params are visible
		env.vars = map[string]SV{}
		for _, p := range fr.fn.Params {
			env.vars[p.Name()] = fr.env[p]
		}
		env.pkg = fr.fn.Pkg.Pkg
	}
	// source names of values defined before the loop (DebugRef), closest dominating definition wins
	best := map[string]*ssa.BasicBlock{}
	cellNames := map[string]bool{}
	// named locals that live in a cell (captured by a closure, address taken, named results of functions with defer):
	// the name denotes the value currently stored in the cell - not any value that was once loaded from or stored to it
	for _, b := range fr.fn.Blocks {
		if !b.Dominates(h) || b == h {
			continue
		}
		for _, ins := range b.Instrs {
			al, ok := ins.(*ssa.Alloc)
			if !ok || al.Comment == "" || cellNames[al.Comment] {
				continue
			}
			if !isSourceName(al.Comment) {
				continue
			}
			if _, isParam := vc.params[al.Comment]; isParam && fr.top {
				continue
			}
			if psv, have := fr.env[al]; have {
				best[al.Comment] = b
				cellNames[al.Comment] = true
				env.vars[al.Comment] = SV{t: vc.loadLoc(cur, vc.locOf(psv)), typ: derefType(al.Type())}
			}
		}
	}
	for _, b := range fr.fn.Blocks {
		if !b.Dominates(h) || b == h {
			continue
		}
		for _, ins := range b.Instrs {
			dr, ok := ins.(*ssa.DebugRef)
			if !ok {
				continue
			}
			id, ok := dr.Expr.(*ast.Ident)
			if !ok {
				continue
			}
			if dr.IsAddr {
				// address-taken local: its name denotes the value currently stored in its cell
				if al, isAlloc := dr.X.(*ssa.Alloc); isAlloc {
					if psv, have := fr.env[al]; have {
						if pb := best[id.Name]; pb == nil || pb.Dominates(b) {
							best[id.Name] = b
							env.vars[id.Name] = SV{t: vc.loadLoc(cur, vc.locOf(psv)), typ: derefType(al.Type())}
							cellNames[id.Name] = true
						}
					}
				}
				continue
			}
			if cellNames[id.Name] {
				// a value once read from (or about to be written to) the cell of an address-taken local is not the
				// variable: the cell's current content is
				continue
			}
			sv, have := fr.env[dr.X]
			if !have {
				if _, isC := dr.X.(*ssa.Const); isC {
					sv = fr.val(dr.X)
				} else {
					continue
				}
			}
			if _, isParam := env.vars[id.Name]; isParam && best[id.Name] == nil {
				if _, p := vc.params[id.Name]; p && fr.top {
					// a parameter that is reassigned before the loop: the reassigned value wins
				}
			}
			if pb := best[id.Name]; pb == nil || pb.Dominates(b) {
				best[id.Name] = b
				env.vars[id.Name] = sv
			}
		}
	}
	// a variable merged by a phi in a dominating block (e.g. a named result assigned in both arms of an if before the
	// loop) and not mentioned by any DebugRef: the closest dominating phi carries its value
	for _, b := range fr.fn.Blocks {
		if !b.Dominates(h) || b == h {
			continue
		}
		for _, ins := range b.Instrs {
			phi, ok := ins.(*ssa.Phi)
			if !ok {
				break
			}
			if phi.Comment == "" {
				continue
			}
			sv, have := fr.env[phi]
			if !have {
				continue
			}
			if pb := best[phi.Comment]; pb == nil || (pb != b && pb.Dominates(b)) {
				best[phi.Comment] = b
				env.vars[phi.Comment] = sv
			}
		}
	}
	// named locals that live in a cell (named results of functions with defer, escaping locals) and have no
	// DebugRef before the loop: the name denotes the value currently stored in the cell
	for _, b := range fr.fn.Blocks {
		if !b.Dominates(h) || b == h {
			continue
		}
		for _, ins := range b.Instrs {
			al, ok := ins.(*ssa.Alloc)
			if !ok || al.Comment == "" || best[al.Comment] != nil {
				continue
			}
			if _, isParam := vc.params[al.Comment]; isParam && fr.top {
				continue
			}
			if psv, have := fr.env[al]; have {
				best[al.Comment] = b
				env.vars[al.Comment] = SV{t: vc.loadLoc(cur, vc.locOf(psv)), typ: derefType(al.Type())}
			}
		}
	}
	for _, ins := range h.Instrs {
		phi, ok := ins.(*ssa.Phi)
		if !ok {
			break
		}
		name := phi.Comment
		if name == "" {
			continue
		}
		if v, ok := phiVals[phi]; ok {
			env.vars[name] = v
			env.vars["#"+name] = v
		}
	}
	return env
}

func (fr *frame) enterLoop(h *ssa.BasicBlock, edges []edgeState, ord int) (*State, T) {
	vc := fr.vc
	stIn, gIn := vc.mergeStates(edges)
	if len(edges) > 1 {
		gc := vc.fresh("g", "Bool")
		vc.assume(eq(gc, gIn))
		gIn = gc
	}
	con := vc.con
	if !fr.top {
		con = vc.eng.contracts[funcKey(fr.fn)]
	}
	var invs, decs []*Clause
	if con != nil {
		for _, cl := range con.Clauses {
			if cl.Loop == ord && cl.Kind == "loopinv" {
				invs = append(invs, cl)
			}
			if cl.Loop == ord && cl.Kind == "loopdec" {
				decs = append(decs, cl)
			}
		}
	}
	if len(invs) == 0 && !vc.dry && !vc.eng.sweep {
		vc.errorf("loop %d of %s has no invariant", ord, funcKey(fr.fn))
	}
	// entry values of the header phis
	entryVals := map[*ssa.Phi]SV{}
	for _, ins := range h.Instrs {
		phi, ok := ins.(*ssa.Phi)
		if !ok {
			break
		}
		entryVals[phi] = fr.mergePhi(phi, edges)
	}
	envIn := fr.loopEnv(h, entryVals, stIn)
	envIn.loopAlloc = stIn.alloc
	for i, cl := range invs {
		vc.oblige("inv", fmt.Sprintf("loop%d.inv%d.entry", ord, i+1), gIn, vc.evalGoal(cl.Expr, envIn))
	}
	// havoc
	li := &loopInfo{ord: ord, phis: map[*ssa.Phi]SV{}, guard: gIn}
	hst := stIn.clone()
	mod := vc.modLoops[h]
	var names []string
	for k := range vc.heapSort {
		names = append(names, k)
	}
	sort.Strings(names)
	for _, k := range names {
		if mod == nil || mod[k] {
			hst.heaps[k] = vc.fresh("lh"+fmt.Sprint(ord)+"_"+k, vc.heapSort[k])
		}
	}
	na := vc.fresh("lalloc", "Int")
	vc.assume(le(stIn.alloc, na))
	hst.alloc = na
	for _, k := range names {
		if (mod == nil || mod[k]) && !vc.ghost[k] {
			vc.heapWF(hst.heaps[k], k, na)
		}
	}
	for _, ins := range h.Instrs {
		phi, ok := ins.(*ssa.Phi)
		if !ok {
			break
		}
		c := vc.fresh("lp"+fmt.Sprint(ord)+"_"+phi.Comment, vc.sortOf(phi.Type()))
		vc.assume(vc.typeFacts(c, phi.Type(), na, 0))
		sv := SV{t: c, typ: phi.Type()}
		li.phis[phi] = sv
		fr.env[phi] = sv
	}
	li.st = hst.clone()
	envH := fr.loopEnv(h, li.phis, hst)
	envH.loopAlloc = stIn.alloc
	li.entryAlloc = stIn.alloc
	envH.old = vc.entry
	for _, cl := range invs {
		vc.assume(implies(gIn, vc.evalHyp(cl.Expr, envH, gIn)))
	}
	if con != nil {
		for _, cl := range con.Clauses {
			if cl.Kind != "loopframe" || cl.Loop != ord {
				continue
			}
			except := map[string]bool{}
			for _, x := range strings.Fields(cl.Text) {
				except[x] = true
			}
			li.frameIn = stIn.clone()
			li.frameBound = "alloc@0"
			if except["strict"] {
				// loop N frame strict: every cell allocated before the loop is entered (not only before the function
				// was entered) keeps its content
				li.frameBound = stIn.alloc
			}
			for _, k := range names {
				if !(mod == nil || mod[k]) || vc.ghost[k] || except[k] || k == "Hrng" || vc.isLibState(k) || !strings.HasPrefix(vc.heapSort[k], "(Array Int") {
					continue
				}
				li.frameHeaps = append(li.frameHeaps, k)
				hin := vc.heapGet(stIn, k)
				vc.assume("(forall ((fr_r Int)) (! (=> (and (<= 0 fr_r) (< fr_r " + li.frameBound + ")) (= (select " + hst.heaps[k] + " fr_r) (select " + hin + " fr_r))) :pattern ((select " + hst.heaps[k] + " fr_r))))")
			}
		}
	}
	if len(decs) > 0 {
		li.dec = vc.evalSpec(decs[0].Expr, envH).t
		li.hasDec = true
	}
	fr.loops[h] = li
	return hst, gIn
}

func (fr *frame) backEdge(h *ssa.BasicBlock, from *ssa.BasicBlock, st *State, g T) {
	vc := fr.vc
	li := fr.loops[h]
	if li == nil {
		vc.errorf("back edge to unknown loop header in %s", funcKey(fr.fn))
		return
	}
	li.backSts = append(li.backSts, st.clone())
	con := vc.con
	if !fr.top {
		con = vc.eng.contracts[funcKey(fr.fn)]
	}
	backVals := map[*ssa.Phi]SV{}
	idx := predIndex(h, from)
	for _, ins := range h.Instrs {
		phi, ok := ins.(*ssa.Phi)
		if !ok {
			break
		}
		backVals[phi] = fr.val(phi.Edges[idx])
	}
	env := fr.loopEnv(h, backVals, st)
	env.loopAlloc = li.entryAlloc
	n := 0
	be := "" // several back edges (continue, short-circuit conditions): one obligation per edge
	if len(li.backSts) > 1 {
		be = fmt.Sprintf(".b%d", len(li.backSts))
	}
	if con != nil {
		for _, cl := range con.Clauses {
			if cl.Loop == li.ord && cl.Kind == "loopinv" {
				n++
				vc.oblige("inv", fmt.Sprintf("loop%d.inv%d.preserve%s", li.ord, n, be), g, vc.evalGoal(cl.Expr, env))
			}
			if cl.Loop == li.ord && cl.Kind == "loopdec" && li.hasDec {
				d := vc.evalSpec(cl.Expr, env).t
				vc.oblige("inv", fmt.Sprintf("loop%d.decreases%s", li.ord, be), g, and(le("0", li.dec), lt(d, li.dec)))
			}
		}
	}
	// loop frame: cells that existed at loop entry are unchanged at the back edge
	for _, k := range li.frameHeaps {
		sk := vc.fresh("lfr_"+k, "Int")
		vc.oblige("inv", fmt.Sprintf("loop%d.frame.%s.preserve%s", li.ord, k, be), and(g, le("0", sk), lt(sk, li.frameBound)),
			eq(sel(vc.heapGet(st, k), sk), sel(vc.heapGet(li.frameIn, k), sk)))
	}
	// record which heaps the body modified (for the discovery pass)
	if vc.dry {
		m := vc.modFound[h]
		if m == nil {
			m = map[string]bool{}
			vc.modFound[h] = m
		}
		for k := range vc.heapSort {
			if vc.heapGet(st, k) != vc.heapGet(li.st, k) {
				m[k] = true
			}
		}
	}
}

// ---------------------------------------------------------------- operands

func (fr *frame) val(v ssa.Value) SV {
	vc := fr.vc
	if sv, ok := fr.env[v]; ok {
		return sv
	}
	switch x := v.(type) {
	case *ssa.Const:
		return vc.constVal(x)
	case *ssa.Function:
		return SV{t: "0", typ: x.Type(), fn: x}
	case *ssa.Global:
		return vc.globalRef(x)
	case *ssa.Builtin:
		return SV{t: "0", typ: x.Type()}
	case *ssa.FreeVar:
		vc.errorf("free variable %s in %s", x.Name(), funcKey(fr.fn))
		return SV{t: "0", typ: x.Type()}
	}
	vc.errorf("value %s (%T) not evaluated in %s", v.Name(), v, funcKey(fr.fn))
	return SV{t: "0", typ: v.Type()}
}

func (vc *VC) constVal(c *ssa.Const) SV {
	t := c.Type()
	if c.Value == nil {
		return SV{t: vc.zero(t), typ: t}
	}
	switch c.Value.Kind() {
	case constant.Bool:
		if constant.BoolVal(c.Value) {
			return SV{t: tTrue, typ: t}
		}
		return SV{t: tFalse, typ: t}
	case constant.Int:
		if b, ok := t.Underlying().(*types.Basic); ok && b.Info()&types.IsFloat != 0 {
			return SV{t: c.Value.ExactString() + ".0", typ: t}
		}
		bi, _ := new(big.Int).SetString(c.Value.ExactString(), 10)
		return SV{t: numBig(bi), typ: t}
	case constant.String:
		return SV{t: vc.strLit(constant.StringVal(c.Value)), typ: t}
	case constant.Float:
		f := vc.fresh("fconst", "Real")
		return SV{t: f, typ: t}
	}
	vc.errorf("unsupported constant %s", c)
	return SV{t: "0", typ: t}
}

func (vc *VC) globalRef(g *ssa.Global) SV {
	name := "glob_" + sanitize(strings.Replace(g.Pkg.Pkg.Path(), repoMod+"/", "", 1)+"."+g.Name())
	if !vc.declared[name] {
		vc.decl(name, "Int")
		vc.assume(and(lt("0", name), lt(name, "alloc@0")))
		for _, o := range vc.globals {
			vc.assume(not(eq(o, name)))
		}
		vc.globals = append(vc.globals, name)
	}
	return SV{t: name, typ: g.Type()}
}

// ---------------------------------------------------------------- integer helpers

// wrapNamed: the machine-integer result of x, as a named constant together with the (valid) fact that it equals x
// whenever x is in range - solvers otherwise have to rediscover this through the mod arithmetic of wrapInt.
func (fr *frame) wrapNamed(x T, t types.Type) T {
	w := wrapInt(x, t)
	if w == x || fr.vc.dry {
		return w
	}
	lo, hi, ok := intRange(t)
	if !ok {
		return w
	}
	if _, isNum := isNumeral(x); isNum {
		return w
	}
	n := fr.vc.nameTerm2("wr", w, "Int")
	fr.vc.assume(implies(and(le(lo, x), le(x, hi)), eq(n, x)))
	return n
}

func wrapInt(x T, t types.Type) T {
	lo, hi, ok := intRange(t)
	if !ok {
		return x
	}
	bits, signed := intBits(t)
	_ = lo
	_ = hi
	m := new(big.Int).Lsh(big.NewInt(1), uint(bits)).String()
	if !signed {
		return "(mod " + x + " " + m + ")"
	}
	half := new(big.Int).Lsh(big.NewInt(1), uint(bits-1)).String()
	return "(- (mod (+ " + x + " " + half + ") " + m + ") " + half + ")"
}

func isNumeral(t T) (*big.Int, bool) {
	sx, err := parseSx(t)
	if err != nil || len(sx) != 1 {
		return nil, false
	}
	return sxInt(sx[0])
}

func isIntType(t types.Type) bool {
	b, ok := t.Underlying().(*types.Basic)
	return ok && b.Info()&types.IsInteger != 0
}

func isStringType(t types.Type) bool {
	b, ok := t.Underlying().(*types.Basic)
	return ok && b.Info()&types.IsString != 0
}

func isFloatType(t types.Type) bool {
	b, ok := t.Underlying().(*types.Basic)
	return ok && b.Info()&types.IsFloat != 0
}

// ---------------------------------------------------------------- instructions

func (fr *frame) safe(kind string, cond T) {
	vc := fr.vc
	if cond == tTrue {
		return
	}
	if fr.vc.lenient() {
		// partial-correctness regime: runtime panics end the path
		fr.strengthen(cond)
		return
	}
	n := vc.count(kind)
	vc.oblige("safe", fmt.Sprintf("%s%d", kind, n), fr.g, cond)
	fr.strengthen(cond)
}

// checkGuard: lock discipline. Taking the address of a guarded field (every read and write goes through
// it) requires the struct's mutex to be held.
func (fr *frame) checkGuard(x *ssa.FieldAddr, st types.Type, base *Loc, cur *State) {
	vc := fr.vc
	if len(vc.eng.guards) == 0 || (vc.con != nil && vc.con.Unguarded) {
		return
	}
	nt, ok := types.Unalias(st).(*types.Named)
	if !ok || nt.Obj().Pkg() == nil {
		return
	}
	g := vc.eng.guards[nt.Obj().Pkg().Path()+"."+nt.Obj().Name()]
	if g == nil {
		return
	}
	su, ok := nt.Underlying().(*types.Struct)
	if !ok {
		return
	}
	fname := su.Field(x.Field).Name()
	hit := false
	for _, f := range g.Fields {
		if f == fname {
			hit = true
		}
	}
	if !hit {
		return
	}
	for i := 0; i < su.NumFields(); i++ {
		if su.Field(i).Name() == g.Mutex {
			ml := &Loc{Heap: base.Heap, Ref: base.Ref, Idx: base.Idx, Root: base.Root, Path: append(append([]pathElem{}, base.Path...), pathElem{Field: i, In: st})}
			vc.oblige("safe", fmt.Sprintf("guarded%d.%s", vc.count("guarded"), fname), fr.g, eq(vc.loadLoc(cur, ml), "1"))
			return
		}
	}
}

// strengthen conjoins c to the current path guard.
func (fr *frame) strengthen(c T) {
	if c == tTrue {
		return
	}
	vc := fr.vc
	g2 := vc.fresh("g", "Bool")
	vc.assume(eq(g2, and(fr.g, c)))
	fr.g = g2
}

func (fr *frame) nonNil(p SV) {
	if p.loc != nil {
		return
	}
	if strings.HasPrefix(p.t, "(+ alloc") || strings.HasPrefix(p.t, "glob_") {
		return
	}
	if fr.vc.nonnil[p.t] {
		return
	}
	fr.safe("nil", not(eq(p.t, "0")))
}

func (fr *frame) execInstr(ins ssa.Instruction, cur *State, incoming map[*ssa.BasicBlock][]edgeState, headers map[*ssa.BasicBlock]bool) {
	vc := fr.vc
	b := ins.Block()
	addEdge := func(to *ssa.BasicBlock, g T) {
		if g == tFalse {
			return
		}
		if headers[to] && to.Dominates(b) {
			fr.backEdge(to, b, cur, g)
			return
		}
		incoming[to] = append(incoming[to], edgeState{guard: g, st: cur.clone(), from: b})
	}
	switch x := ins.(type) {
	case *ssa.DebugRef:
		return
	case *ssa.If:
		c := fr.val(x.Cond).t
		addEdge(b.Succs[0], and(fr.g, c))
		addEdge(b.Succs[1], and(fr.g, not(c)))
	case *ssa.Jump:
		addEdge(b.Succs[0], fr.g)
	case *ssa.Return:
		var vals []SV
		for _, r := range x.Results {
			vals = append(vals, fr.val(r))
		}
		fr.rets = append(fr.rets, retSite{guard: fr.g, vals: vals, st: cur.clone(), nf: len(vc.facts), pos: x.Pos()})
	case *ssa.Panic:
		vc.panics = append(vc.panics, panicSite{guard: fr.g, val: fr.val(x.X), st: cur.clone(), what: "panic@" + funcKey(fr.fn), nf: len(vc.facts)})
		fr.g = tFalse
	case *ssa.RunDefers:
		for i := len(fr.defers) - 1; i >= 0; i-- {
			d := fr.defers[i]
			fr.doCall(d.call, d.args, cur, nil)
		}
	case *ssa.Defer:
		args := fr.callArgs(&x.Call)
		fr.defers = append(fr.defers, deferred{call: &x.Call, args: args})
		if deferRecovers(&x.Call) {
			if fr.armed == "" {
				fr.armed = fr.g
			} else {
				fr.armed = or(fr.armed, fr.g)
			}
		}
	case *ssa.Go, *ssa.Send, *ssa.Select:
		vc.errorf("unsupported instruction %T in %s", ins, funcKey(fr.fn))
	case *ssa.Store:
		p := fr.val(x.Addr)
		fr.nonNil(p)
		v := fr.val(x.Val)
		vc.storeLoc(cur, vc.locOf(p), vc.conv(v, derefType(x.Addr.Type())))
		fr.nameHeaps(cur)
	case *ssa.MapUpdate:
		fr.mapUpdate(x, cur)
	case ssa.Value:
		fr.env[x] = fr.execValue(x, cur)
	default:
		vc.errorf("unsupported instruction %T in %s", ins, funcKey(fr.fn))
	}
}

// nameHeaps replaces large heap terms by named constants.
func (fr *frame) nameHeaps(st *State) {
	for k, v := range st.heaps {
		if len(v) > 400 {
			st.heaps[k] = fr.vc.nameTerm("h_"+k, v, fr.vc.heapSort[k])
		}
	}
}

// conv adapts a value to the sort of type `to` when the Go types differ only by name.
func (vc *VC) conv(v SV, to types.Type) T {
	if v.typ == nil || to == nil {
		return v.t
	}
	if _, isIface := to.Underlying().(*types.Interface); isIface {
		if _, srcIface := v.typ.Underlying().(*types.Interface); !srcIface {
			return vc.makeIface(v)
		}
	}
	return v.t
}

func (vc *VC) typeIDByName(name string) int {
	if id, ok := vc.typeIDs[name]; ok {
		return id
	}
	id := len(vc.typeIDs) + 1
	vc.typeIDs[name] = id
	return id
}

func (vc *VC) typeID(t types.Type) int {
	k := typeKey(t)
	k = strings.Replace(k, repoMod+"/", "", -1)
	return vc.typeIDByName(k)
}

func (vc *VC) boxFuncs(sort string) (string, string) {
	s := sanitize(sort)
	b, u := "box_"+s, "unbox_"+s
	vc.declRaw("box:"+s, fmt.Sprintf("(declare-fun %s (%s) Int)\n(declare-fun %s (Int) %s)", b, sort, u, sort))
	return b, u
}

func (vc *VC) makeIface(v SV) T {
	s := vc.sortOf(v.typ)
	if s == "Iface" {
		return v.t
	}
	if s == "Int" {
		// pointers and ints box as themselves
		return app("mk_iface", num(int64(vc.typeID(v.typ))), v.t)
	}
	b, u := vc.boxFuncs(s)
	bx := app(b, v.t)
	vc.assume(eq(app(u, bx), v.t))
	return app("mk_iface", num(int64(vc.typeID(v.typ))), bx)
}

func (vc *VC) unbox(i T, t types.Type) T {
	s := vc.sortOf(t)
	if s == "Int" {
		return app("i_val", i)
	}
	_, u := vc.boxFuncs(s)
	return app(u, app("i_val", i))
}

func (fr *frame) execValue(v ssa.Value, cur *State) SV {
	vc := fr.vc
	switch x := v.(type) {
	case *ssa.Alloc:
		et := derefType(x.Type())
		ref := cur.alloc
		cur.alloc = vc.bump(cur.alloc)
		sv := SV{t: ref, typ: x.Type()}
		l := vc.locOf(sv)
		vc.storeLoc(cur, l, vc.zero(et))
		return sv
	case *ssa.FieldAddr:
		p := fr.val(x.X)
		fr.nonNil(p)
		base := vc.locOf(p)
		st := derefType(x.X.Type())
		fr.checkGuard(x, st, base, cur)
		nl := &Loc{Heap: base.Heap, Ref: base.Ref, Idx: base.Idx, Root: base.Root, Path: append(append([]pathElem{}, base.Path...), pathElem{Field: x.Field, In: st})}
		return SV{t: "interior", typ: x.Type(), loc: nl}
	case *ssa.Field:
		s := fr.val(x.X)
		return SV{t: app(fmt.Sprintf("%s_f%d", vc.sortOf(x.X.Type()), x.Field), s.t), typ: x.Type()}
	case *ssa.IndexAddr:
		base := fr.val(x.X)
		idx := fr.val(x.Index).t
		switch u := x.X.Type().Underlying().(type) {
		case *types.Slice:
			if _, isNum := isNumeral(idx); !isNum && len(idx) < 120 {
				vc.progIdx = append(vc.progIdx, idx)
			}
			fr.safe("bounds", and(le("0", idx), lt(idx, app("s_len", base.t))))
			return SV{t: "interior", typ: x.Type(), loc: &Loc{Heap: vc.arrHeap(u.Elem()), Ref: app("s_ref", base.t), Idx: add(app("s_off", base.t), idx), Root: u.Elem()}}
		case *types.Pointer:
			arr := u.Elem().Underlying().(*types.Array)
			fr.nonNil(base)
			fr.safe("bounds", and(le("0", idx), lt(idx, num(arr.Len()))))
			bl := vc.locOf(base)
			if bl.Heap == vc.arrHeap(arr.Elem()) && bl.Idx == "" && len(bl.Path) == 0 {
				return SV{t: "interior", typ: x.Type(), loc: &Loc{Heap: bl.Heap, Ref: bl.Ref, Idx: idx, Root: arr.Elem()}}
			}
			nl := &Loc{Heap: bl.Heap, Ref: bl.Ref, Idx: bl.Idx, Root: bl.Root, Path: append(append([]pathElem{}, bl.Path...), pathElem{Field: -1, Idx: idx, In: u.Elem()})}
			return SV{t: "interior", typ: x.Type(), loc: nl}
		}
		vc.errorf("IndexAddr on %s", x.X.Type())
	case *ssa.Index:
		base := fr.val(x.X)
		idx := fr.val(x.Index).t
		switch u := x.X.Type().Underlying().(type) {
		case *types.Array:
			fr.safe("bounds", and(le("0", idx), lt(idx, num(u.Len()))))
			return SV{t: sel(base.t, idx), typ: x.Type()}
		case *types.Basic: // string
			fr.safe("bounds", and(le("0", idx), lt(idx, app("str_len", base.t))))
			vc.declRaw("fn:str_at", "(declare-fun str_at (Str Int) Int)")
			r := app("str_at", base.t, idx)
			vc.assume(inRange(r, "0", "255"))
			return SV{t: r, typ: x.Type()}
		}
		vc.errorf("Index on %s", x.X.Type())
	case *ssa.UnOp:
		return fr.unop(x, cur)
	case *ssa.BinOp:
		return fr.binop(x)
	case *ssa.Phi:
		return fr.env[x]
	case *ssa.Extract:
		t := fr.val(x.Tuple)
		if x.Index < len(t.tup) {
			return t.tup[x.Index]
		}
		vc.errorf("extract from non-tuple in %s", funcKey(fr.fn))
	case *ssa.Call:
		args := fr.callArgs(&x.Call)
		return fr.doCall(&x.Call, args, cur, x)
	case *ssa.MakeInterface:
		s := fr.val(x.X)
		if vc.sortOf(x.Type()) != "Iface" && vc.sortOf(x.Type()) == vc.sortOf(x.X.Type()) {
			// value mode: an interface type with an abstract sort of its own (sdk.Ctx) boxed from the concrete type of
			// the same sort (sdk.Context): the same value
			return SV{t: s.t, typ: x.Type()}
		}
		boxed := s
		return SV{t: vc.makeIface(s), typ: x.Type(), dyn: &boxed}
	case *ssa.ChangeInterface:
		s := fr.val(x.X)
		return SV{t: s.t, typ: x.Type(), dyn: s.dyn}
	case *ssa.ChangeType:
		s := fr.val(x.X)
		return fr.changeType(s, x.Type())
	case *ssa.Convert:
		return fr.convert(x, cur)
	case *ssa.TypeAssert:
		return fr.typeAssert(x)
	case *ssa.MakeSlice:
		et := x.Type().Underlying().(*types.Slice).Elem()
		if vc.sortOf(x.Type()) == "Bytes" {
			// value mode: a fresh non-nil byte string of the requested length
			b := vc.fresh("mkbytes", "Bytes")
			vc.assume(and(eq(app("bytes_len", b), fr.val(x.Len).t), not(eq(b, "bytes_nil"))))
			return SV{t: b, typ: x.Type()}
		}
		ln := fr.val(x.Len).t
		cp := fr.val(x.Cap).t
		fr.safe("makeslice", and(le("0", ln), le(ln, cp)))
		ref := cur.alloc
		cur.alloc = vc.bump(cur.alloc)
		h := vc.arrHeap(et)
		vc.heapSet(cur, h, sto(vc.heapGet(cur, h), ref, vc.constArray("(Array Int "+vc.sortOf(et)+")", vc.zero(et))))
		return SV{t: app("mk_slice", ref, "0", ln, cp), typ: x.Type()}
	case *ssa.Slice:
		return fr.sliceOp(x, cur)
	case *ssa.MakeClosure:
		var bnd []SV
		for _, bv := range x.Bindings {
			bnd = append(bnd, fr.val(bv))
		}
		return SV{t: "0", typ: x.Type(), fn: x.Fn.(*ssa.Function), bnd: bnd}
	case *ssa.MakeMap:
		return fr.makeMap(x, cur)
	case *ssa.Lookup:
		return fr.lookup(x, cur)
	case *ssa.Range:
		return fr.rangeOp(x, cur)
	case *ssa.Next:
		return fr.nextOp(x, cur)
	}
	vc.errorf("unsupported value %T in %s", v, funcKey(fr.fn))
	return SV{t: vc.fresh("unsup", vc.sortOf(v.Type())), typ: v.Type()}
}

func (vc *VC) bump(alloc T) T {
	// alloc terms have the form base or (+ base k)
	if strings.HasPrefix(alloc, "(+ ") && strings.HasSuffix(alloc, ")") {
		parts := strings.Fields(alloc[3 : len(alloc)-1])
		if len(parts) == 2 {
			if n, ok := new(big.Int).SetString(parts[1], 10); ok {
				return "(+ " + parts[0] + " " + n.Add(n, big.NewInt(1)).String() + ")"
			}
		}
	}
	if !balanced(alloc) || strings.Contains(alloc, " ") {
		alloc = vc.nameTerm2("alloc", alloc, "Int")
	}
	return "(+ " + alloc + " 1)"
}

func (vc *VC) nameTerm2(prefix string, t T, sort string) T {
	c := vc.fresh(prefix, sort)
	vc.assume(eq(c, t))
	return c
}

func (fr *frame) unop(x *ssa.UnOp, cur *State) SV {
	vc := fr.vc
	a := fr.val(x.X)
	switch x.Op {
	case token.MUL:
		fr.nonNil(a)
		l := vc.locOf(a)
		t := vc.loadLoc(cur, l)
		t = vc.nameTerm("ld", t, vc.sortOf(x.Type()))
		return SV{t: t, typ: x.Type()}
	case token.NOT:
		return SV{t: not(a.t), typ: x.Type()}
	case token.SUB:
		if isFloatType(x.Type()) {
			return SV{t: app("-", a.t), typ: x.Type()}
		}
		return SV{t: wrapInt(app("-", a.t), x.Type()), typ: x.Type()}
	case token.XOR:
		bits, signed := intBits(x.Type())
		if signed {
			return SV{t: sub(app("-", a.t), "1"), typ: x.Type()}
		}
		m := new(big.Int).Lsh(big.NewInt(1), uint(bits))
		m.Sub(m, big.NewInt(1))
		return SV{t: sub(m.String(), a.t), typ: x.Type()}
	}
	vc.errorf("unsupported unary operator %s in %s", x.Op, funcKey(fr.fn))
	return SV{t: vc.fresh("unsup", vc.sortOf(x.Type())), typ: x.Type()}
}

func (fr *frame) havocTyped(t types.Type, why string, cur *State) SV {
	vc := fr.vc
	c := vc.fresh("hv", vc.sortOf(t))
	vc.assume(vc.typeFacts(c, t, cur.alloc, 0))
	vc.assumes["unmodelled operation havocked: "+why] = true
	return SV{t: c, typ: t}
}

func (fr *frame) binop(x *ssa.BinOp) SV {
	vc := fr.vc
	a, b := fr.val(x.X), fr.val(x.Y)
	t := x.X.Type()
	rt := x.Type()
	switch x.Op {
	case token.EQL, token.NEQ:
		var r T
		sa := vc.sortOf(t)
		switch {
		case sa == "Slice":
			// only comparison with nil is legal
			if isNilConst(x.Y) {
				r = eq(app("s_ref", a.t), "0")
			} else {
				r = eq(app("s_ref", b.t), "0")
			}
		case sa == "Iface":
			if isNilConst(x.Y) {
				r = eq(app("i_type", a.t), "0")
			} else if isNilConst(x.X) {
				r = eq(app("i_type", b.t), "0")
			} else {
				r = eq(a.t, vc.conv(b, t))
			}
		case sa == "Bytes":
			if isNilConst(x.Y) {
				r = eq(a.t, "bytes_nil")
			} else {
				r = eq(b.t, "bytes_nil")
			}
		case sa == "Coins":
			if isNilConst(x.Y) {
				r = eq(a.t, "coins_nil")
			} else {
				r = eq(b.t, "coins_nil")
			}
		default:
			if a.loc != nil || b.loc != nil {
				vc.errorf("comparison of interior pointers in %s", funcKey(fr.fn))
			}
			r = eq(a.t, b.t)
		}
		if x.Op == token.NEQ {
			r = not(r)
		}
		return SV{t: r, typ: rt}
	case token.LSS, token.LEQ, token.GTR, token.GEQ:
		if isStringType(t) {
			var r T
			switch x.Op {
			case token.LSS:
				r = app("str_lt", a.t, b.t)
			case token.GTR:
				r = app("str_lt", b.t, a.t)
			case token.LEQ:
				r = not(app("str_lt", b.t, a.t))
			default:
				r = not(app("str_lt", a.t, b.t))
			}
			return SV{t: r, typ: rt}
		}
		op := map[token.Token]string{token.LSS: "<", token.LEQ: "<=", token.GTR: ">", token.GEQ: ">="}[x.Op]
		return SV{t: app(op, a.t, b.t), typ: rt}
	case token.ADD:
		if isStringType(t) {
			return SV{t: app("str_cat", a.t, b.t), typ: rt}
		}
		if isFloatType(t) {
			return SV{t: app("+", a.t, b.t), typ: rt}
		}
		return SV{t: fr.wrapNamed(app("+", a.t, b.t), rt), typ: rt}
	case token.SUB:
		if isFloatType(t) {
			return SV{t: app("-", a.t, b.t), typ: rt}
		}
		return SV{t: fr.wrapNamed(app("-", a.t, b.t), rt), typ: rt}
	case token.MUL:
		if isFloatType(t) {
			return SV{t: app("*", a.t, b.t), typ: rt}
		}
		return SV{t: wrapInt(app("*", a.t, b.t), rt), typ: rt}
	case token.QUO:
		if isFloatType(t) {
			return SV{t: app("/", a.t, b.t), typ: rt}
		}
		fr.safe("divzero", not(eq(b.t, "0")))
		return SV{t: wrapInt(app("tdiv", a.t, b.t), rt), typ: rt}
	case token.REM:
		fr.safe("divzero", not(eq(b.t, "0")))
		return SV{t: app("tmod", a.t, b.t), typ: rt}
	case token.SHL:
		if k, ok := isNumeral(b.t); ok && k.IsInt64() && k.Int64() < 256 {
			m := new(big.Int).Lsh(big.NewInt(1), uint(k.Int64()))
			return SV{t: wrapInt(app("*", a.t, m.String()), rt), typ: rt}
		}
	case token.SHR:
		if k, ok := isNumeral(b.t); ok && k.IsInt64() && k.Int64() < 256 {
			m := new(big.Int).Lsh(big.NewInt(1), uint(k.Int64()))
			return SV{t: app("div", a.t, m.String()), typ: rt}
		}
	case token.AND:
		if _, signed := intBits(rt); !signed {
			if k, ok := isNumeral(b.t); ok {
				k1 := new(big.Int).Add(k, big.NewInt(1))
				if k1.BitLen() > 0 && new(big.Int).And(k1, k).Sign() == 0 { // k = 2^n - 1
					return SV{t: app("mod", a.t, k1.String()), typ: rt}
				}
			}
		}
	}
	vc.errorf("unsupported binary operator %s on %s in %s", x.Op, t, funcKey(fr.fn))
	return SV{t: vc.fresh("unsup", vc.sortOf(rt)), typ: rt}
}

func isNilConst(v ssa.Value) bool {
	c, ok := v.(*ssa.Const)
	return ok && c.Value == nil
}

func (fr *frame) changeType(s SV, to types.Type) SV {
	vc := fr.vc
	from := vc.sortOf(s.typ)
	ts := vc.sortOf(to)
	if from == ts {
		r := s
		r.typ = to
		return r
	}
	fst, ok1 := s.typ.Underlying().(*types.Struct)
	_, ok2 := to.Underlying().(*types.Struct)
	if ok1 && ok2 {
		var fs []T
		for i := 0; i < fst.NumFields(); i++ {
			fs = append(fs, app(fmt.Sprintf("%s_f%d", from, i), s.t))
		}
		return SV{t: app("mk_"+ts, fs...), typ: to}
	}
	vc.errorf("ChangeType %s -> %s (sorts %s, %s) in %s", s.typ, to, from, ts, funcKey(fr.fn))
	return SV{t: s.t, typ: to}
}

func (fr *frame) convert(x *ssa.Convert, cur *State) SV {
	vc := fr.vc
	s := fr.val(x.X)
	from, to := x.X.Type(), x.Type()
	switch {
	case isIntType(from) && isIntType(to):
		lo, hi, _ := intRange(from)
		tlo, thi, _ := intRange(to)
		if lo == tlo && hi == thi {
			return SV{t: s.t, typ: to}
		}
		if _, ok := isNumeral(s.t); ok {
			return SV{t: s.t, typ: to} // constants are in range by type checking
		}
		return SV{t: wrapInt(s.t, to), typ: to}
	case vc.sortOf(from) == vc.sortOf(to) && !isStringType(from) && !isStringType(to):
		return SV{t: s.t, typ: to}
	case isStringType(to) && vc.sortOf(from) == "Bytes":
		vc.declBytesStr()
		return SV{t: app("bytes2str", s.t), typ: to}
	case isStringType(from) && vc.sortOf(to) == "Bytes":
		vc.declBytesStr()
		r := app("str2bytes", s.t)
		vc.assume(eq(app("bytes2str", r), s.t))
		vc.assume(eq(app("bytes_len", r), app("str_len", s.t)))
		return SV{t: r, typ: to}
	}
	if sl, ok := to.Underlying().(*types.Slice); ok && isStringType(from) && vc.sortOf(to) == "Slice" {
		// heap mode []byte(s): a fresh array of len(s) bytes whose content spells s
		if b, ok := sl.Elem().Underlying().(*types.Basic); ok && b.Kind() == types.Uint8 {
			ref := cur.alloc
			cur.alloc = vc.bump(cur.alloc)
			h := vc.arrHeap(sl.Elem())
			row := vc.fresh("strrow", "(Array Int Int)")
			vc.assume("(forall ((wf_i Int)) (! (and (<= 0 (select " + row + " wf_i)) (<= (select " + row + " wf_i) 255)) :pattern ((select " + row + " wf_i))))")
			vc.heapSet(cur, h, sto(vc.heapGet(cur, h), ref, row))
			vc.declRaw("fn:str_of", "(declare-fun str_of ((Array Int Int) Int Int) Str)")
			n := app("str_len", s.t)
			vc.assume(eq(app("str_of", row, "0", n), s.t))
			return SV{t: app("mk_slice", ref, "0", n, n), typ: to}
		}
	}
	if sl, ok := from.Underlying().(*types.Slice); ok && isStringType(to) && vc.sortOf(from) == "Slice" {
		// heap mode string(b): a function of the bytes in the slice's window
		if b, ok := sl.Elem().Underlying().(*types.Basic); ok && b.Kind() == types.Uint8 {
			vc.declRaw("fn:str_of", "(declare-fun str_of ((Array Int Int) Int Int) Str)")
			h := vc.arrHeap(sl.Elem())
			r := app("str_of", sel(vc.heapGet(cur, h), app("s_ref", s.t)), app("s_off", s.t), app("s_len", s.t))
			vc.assume(eq(app("str_len", r), app("s_len", s.t)))
			return SV{t: r, typ: to}
		}
	}
	fr.vc.assumes["conversion "+from.String()+" -> "+to.String()+" havocked"] = true
	c := vc.fresh("cv", vc.sortOf(to))
	vc.assume(vc.typeFacts(c, to, "", 0))
	return SV{t: c, typ: to}
}

// declBytesStr: string([]byte) and []byte(string) in value mode. A non-nil byte string is determined
// by its string; []byte(s) is never nil.
func (vc *VC) declBytesStr() {
	vc.needSort("Bytes")
	vc.needSort("Str")
	vc.declRaw("fn:bytes2str", `(declare-fun bytes2str (Bytes) Str)
(declare-fun str2bytes (Str) Bytes)
(assert (forall ((b Bytes)) (! (and (= (str_len (bytes2str b)) (bytes_len b)) (=> (not (= b bytes_nil)) (= (str2bytes (bytes2str b)) b))) :pattern ((bytes2str b)))))
(assert (forall ((s Str)) (! (and (= (bytes2str (str2bytes s)) s) (not (= (str2bytes s) bytes_nil))) :pattern ((str2bytes s)))))
(assert (forall ((a Bytes) (b Bytes)) (! (= (str_lt (bytes2str a) (bytes2str b)) (bytes_lt a b)) :pattern ((bytes_lt a b)) :pattern ((str_lt (bytes2str a) (bytes2str b))))))`)
}

func (fr *frame) typeAssert(x *ssa.TypeAssert) SV {
	vc := fr.vc
	s := fr.val(x.X)
	var ok T
	var val T
	if _, isIface := x.AssertedType.Underlying().(*types.Interface); isIface {
		okc := vc.fresh("taok", "Bool")
		vc.assume(implies(okc, not(eq(app("i_type", s.t), "0"))))
		ok = okc
		val = s.t
	} else {
		ok = eq(app("i_type", s.t), num(int64(vc.typeID(x.AssertedType))))
		val = vc.unbox(s.t, x.AssertedType)
	}
	if x.CommaOk {
		zero := vc.zero(x.AssertedType)
		return SV{typ: x.Type(), tup: []SV{{t: ite(ok, val, zero), typ: x.AssertedType}, {t: ok, typ: types.Typ[types.Bool]}}}
	}
	fr.safe("typeassert", ok)
	return SV{t: val, typ: x.AssertedType}
}

func (fr *frame) sliceOp(x *ssa.Slice, cur *State) SV {
	vc := fr.vc
	base := fr.val(x.X)
	var lo, hi, mx T
	if x.Low != nil {
		lo = fr.val(x.Low).t
	} else {
		lo = "0"
	}
	switch u := x.X.Type().Underlying().(type) {
	case *types.Slice:
		if vc.sortOf(x.X.Type()) == "Bytes" {
			if x.Low == nil && x.High == nil && x.Max == nil {
				return SV{t: base.t, typ: x.Type()} // b[:] is b
			}
			vc.declRaw("fn:bytes_sub", "(declare-fun bytes_sub (Bytes Int Int) Bytes)")
			if x.High != nil {
				hi = fr.val(x.High).t
			} else {
				hi = app("bytes_len", base.t)
			}
			r := app("bytes_sub", base.t, lo, hi)
			vc.assume(eq(app("bytes_len", r), sub(hi, lo)))
			return SV{t: r, typ: x.Type()}
		}
		if x.High != nil {
			hi = fr.val(x.High).t
		} else {
			hi = app("s_len", base.t)
		}
		cp := app("s_cap", base.t)
		if x.Max != nil {
			mx = fr.val(x.Max).t
			fr.safe("slice", and(le("0", lo), le(lo, hi), le(hi, mx), le(mx, cp)))
		} else {
			mx = cp
			fr.safe("slice", and(le("0", lo), le(lo, hi), le(hi, cp)))
		}
		return SV{t: app("mk_slice", app("s_ref", base.t), add(app("s_off", base.t), lo), sub(hi, lo), sub(mx, lo)), typ: x.Type()}
	case *types.Pointer:
		arr := u.Elem().Underlying().(*types.Array)
		fr.nonNil(base)
		n := num(arr.Len())
		if x.High != nil {
			hi = fr.val(x.High).t
		} else {
			hi = n
		}
		if x.Max != nil {
			mx = fr.val(x.Max).t
		} else {
			mx = n
		}
		fr.safe("slice", and(le("0", lo), le(lo, hi), le(hi, mx), le(mx, n)))
		if vc.sortOf(x.Type()) == "Bytes" {
			// value mode: a byte-slice literal / array slice becomes a non-nil byte string of that length
			b := vc.fresh("arrbytes", "Bytes")
			vc.assume(and(eq(app("bytes_len", b), sub(hi, lo)), not(eq(b, "bytes_nil"))))
			if x.Low == nil && x.High == nil && x.Max == nil {
				if bl := vc.locOf(base); bl != nil && bl.Idx == "" && len(bl.Path) == 0 {
					if vc.arrOrigin == nil {
						vc.arrOrigin = map[T]arrOrig{}
					}
					vc.arrOrigin[b] = arrOrig{loc: bl, n: arr.Len()}
					// the byte string determines the array (akey), and the array the byte string
					vc.usePrelude("akey")
					vc.assume(eq(vc.loadLoc(cur, bl), app("akey", b)))
				}
			}
			if arr.Len() > 0 {
				vc.assumes["value mode: content of a byte array sliced into a byte string is not tracked"] = true
			}
			return SV{t: b, typ: x.Type()}
		}
		bl := vc.locOf(base)
		if bl.Idx != "" || len(bl.Path) > 0 {
			vc.errorf("slicing an interior array in %s", funcKey(fr.fn))
		}
		return SV{t: app("mk_slice", bl.Ref, lo, sub(hi, lo), sub(mx, lo)), typ: x.Type()}
	case *types.Basic:
		vc.declRaw("fn:str_sub", "(declare-fun str_sub (Str Int Int) Str)")
		if x.High != nil {
			hi = fr.val(x.High).t
		} else {
			hi = app("str_len", base.t)
		}
		fr.safe("slice", and(le("0", lo), le(lo, hi), le(hi, app("str_len", base.t))))
		r := app("str_sub", base.t, lo, hi)
		vc.assume(eq(app("str_len", r), sub(hi, lo)))
		return SV{t: r, typ: x.Type()}
	}
	vc.errorf("Slice on %s", x.X.Type())
	return SV{t: "0", typ: x.Type()}
}

// locOf for pointers to arrays lives in the element array heap; patch cellHeap accordingly.
func (vc *VC) isArrayType(t types.Type) (*types.Array, bool) {
	a, ok := t.Underlying().(*types.Array)
	return a, ok
}

func (fr *frame) callArgs(c *ssa.CallCommon) []SV {
	var args []SV
	if c.IsInvoke() {
		args = append(args, fr.val(c.Value))
	}
	for _, a := range c.Args {
		args = append(args, fr.val(a))
	}
	return args
}

// isSourceName: the comment of an Alloc is a source variable name (go/ssa also uses comments such as "makeslice",
// "complit", "varargs", "slicelit" for compiler temporaries).
func isSourceName(c string) bool {
	switch c {
	case "makeslice", "complit", "varargs", "slicelit", "new", "makemap", "range", "typeassert", "":
		return false
	}
	return !strings.ContainsAny(c, ".$ ")
}

// deferRecovers: the deferred callee is a function (literal) whose body calls the builtin recover().
func deferRecovers(c *ssa.CallCommon) bool {
	var fn *ssa.Function
	switch v := c.Value.(type) {
	case *ssa.MakeClosure:
		fn, _ = v.Fn.(*ssa.Function)
	case *ssa.Function:
		fn = v
	}
	if fn == nil {
		return false
	}
	for _, b := range fn.Blocks {
		for _, ins := range b.Instrs {
			if call, ok := ins.(ssa.CallInstruction); ok {
				if bi, ok := call.Common().Value.(*ssa.Builtin); ok && bi.Name() == "recover" {
					return true
				}
			}
		}
	}
	return false
}
