package main

// Go maps: a reference into two heaps, values (Array K V) and presence (Array K Bool).

import (
	"go/types"

	"golang.org/x/tools/go/ssa"
)

func (vc *VC) mapHeaps(mt *types.Map) (string, string, string, string) {
	ks, vs := vc.sortOf(mt.Key()), vc.sortOf(mt.Elem())
	hv := "Hm_" + sanitize(ks) + "_" + sanitize(vs)
	hp := "Hmp_" + sanitize(ks)
	if vc.heapMapKey == nil {
		vc.heapMapKey = map[string]string{}
	}
	vc.heapMapKey[hv] = ks
	vc.ensureHeap(hv, "(Array "+ks+" "+vs+")", mt.Elem(), false)
	vc.ensureHeap(hp, "(Array "+ks+" Bool)", nil, false)
	return hv, hp, ks, vs
}

func (fr *frame) makeMap(x *ssa.MakeMap, cur *State) SV {
	vc := fr.vc
	mt := x.Type().Underlying().(*types.Map)
	hv, hp, ks, _ := vc.mapHeaps(mt)
	ref := cur.alloc
	cur.alloc = vc.bump(cur.alloc)
	vc.heapSet(cur, hp, sto(vc.heapGet(cur, hp), ref, "((as const (Array "+ks+" Bool)) false)"))
	_ = hv
	return SV{t: ref, typ: x.Type()}
}

func (fr *frame) lookup(x *ssa.Lookup, cur *State) SV {
	vc := fr.vc
	m := fr.val(x.X)
	k := fr.val(x.Index)
	mt, ok := x.X.Type().Underlying().(*types.Map)
	if !ok {
		// string index
		vc.declRaw("fn:str_at", "(declare-fun str_at (Str Int) Int)")
		fr.safe("bounds", and(le("0", k.t), lt(k.t, app("str_len", m.t))))
		r := app("str_at", m.t, k.t)
		vc.assume(inRange(r, "0", "255"))
		return SV{t: r, typ: x.Type()}
	}
	hv, hp, _, _ := vc.mapHeaps(mt)
	kt := vc.conv(k, mt.Key())
	present := and(not(eq(m.t, "0")), sel(sel(vc.heapGet(cur, hp), m.t), kt))
	val := ite(present, sel(sel(vc.heapGet(cur, hv), m.t), kt), vc.zero(mt.Elem()))
	if x.CommaOk {
		return SV{typ: x.Type(), tup: []SV{{t: val, typ: mt.Elem()}, {t: present, typ: types.Typ[types.Bool]}}}
	}
	return SV{t: val, typ: mt.Elem()}
}

func (fr *frame) mapUpdate(x *ssa.MapUpdate, cur *State) {
	vc := fr.vc
	m := fr.val(x.Map)
	k := fr.val(x.Key)
	v := fr.val(x.Value)
	mt := x.Map.Type().Underlying().(*types.Map)
	hv, hp, _, _ := vc.mapHeaps(mt)
	fr.safe("nilmap", not(eq(m.t, "0")))
	kt := vc.conv(k, mt.Key())
	h := vc.heapGet(cur, hv)
	p := vc.heapGet(cur, hp)
	vc.heapSet(cur, hv, sto(h, m.t, sto(sel(h, m.t), kt, vc.conv(v, mt.Elem()))))
	vc.heapSet(cur, hp, sto(p, m.t, sto(sel(p, m.t), kt, tTrue)))
	fr.nameHeaps(cur)
}

func (fr *frame) mapDelete(args []SV, cur *State) SV {
	vc := fr.vc
	m, k := args[0], args[1]
	mt := m.typ.Underlying().(*types.Map)
	_, hp, _, _ := vc.mapHeaps(mt)
	kt := vc.conv(k, mt.Key())
	p := vc.heapGet(cur, hp)
	vc.heapSet(cur, hp, ite(eq(m.t, "0"), p, sto(p, m.t, sto(sel(p, m.t), kt, tFalse))))
	return SV{t: "0"}
}

func (fr *frame) mapLen(m SV, cur *State, rtyp types.Type) SV {
	vc := fr.vc
	r := vc.fresh("maplen", "Int")
	vc.assume(le("0", r))
	vc.assumes["len(map) is an unconstrained non-negative integer"] = true
	return SV{t: r, typ: rtyp}
}
