package main

// Go maps: a reference into two heaps, values (Array K V) and presence (Array K Bool).

import (
	"strings"
	"fmt"
	"go/types"
	"sort"

	"golang.org/x/tools/go/ssa"
)

func (vc *VC) mapHeaps(mt *types.Map) (string, string, string, string) {
	ks, vs := vc.sortOf(mt.Key()), vc.sortOf(mt.Elem())
	if strings.HasPrefix(ks, "(Array") {
		// array-typed keys ([N]byte): the map is indexed by an injective integer code of the array value, so that
		// no array-indexed SMT arrays arise (cvc5 rejects them, z3 is slow on them)
		vc.declRaw("fn:arrid"+sanitize(ks), fmt.Sprintf("(declare-fun arrid%s (%s) Int)\n(declare-fun arrid_inv%s (Int) %s)\n(assert (forall ((x %s)) (! (= (arrid_inv%s (arrid%s x)) x) :pattern ((arrid%s x)))))", sanitize(ks), ks, sanitize(ks), ks, ks, sanitize(ks), sanitize(ks), sanitize(ks)))
		hv := "Hm_" + sanitize(ks) + "_" + sanitize(vs)
		hp := "Hmp_" + sanitize(ks) + "_" + sanitize(vs)
		if vc.heapMapKey == nil {
			vc.heapMapKey = map[string]string{}
		}
		vc.heapMapKey[hv] = "Int"
		vc.ensureHeap(hv, "(Array Int "+vs+")", mt.Elem(), false)
		vc.ensureHeap(hp, "(Array Int Bool)", nil, false)
		return hv, hp, "Int", vs
	}
	hv := "Hm_" + sanitize(ks) + "_" + sanitize(vs)
	hp := "Hmp_" + sanitize(ks) + "_" + sanitize(vs) // per map type: maps of different Go types never alias
	if vc.heapMapKey == nil {
		vc.heapMapKey = map[string]string{}
	}
	vc.heapMapKey[hv] = ks
	vc.ensureHeap(hv, "(Array "+ks+" "+vs+")", mt.Elem(), false)
	vc.ensureHeap(hp, "(Array "+ks+" Bool)", nil, false)
	return hv, hp, ks, vs
}

func (fr *frame) makeMap(x *ssa.MakeMap, cur *State) SV {
	vc := fr.vc
	mt := x.Type().Underlying().(*types.Map)
	hv, hp, ks, _ := vc.mapHeaps(mt)
	ref := cur.alloc
	cur.alloc = vc.bump(cur.alloc)
	vc.heapSet(cur, hp, sto(vc.heapGet(cur, hp), ref, "((as const (Array "+ks+" Bool)) false)"))
	_ = hv
	return SV{t: ref, typ: x.Type()}
}

func (fr *frame) lookup(x *ssa.Lookup, cur *State) SV {
	vc := fr.vc
	m := fr.val(x.X)
	k := fr.val(x.Index)
	mt, ok := x.X.Type().Underlying().(*types.Map)
	if !ok {
		// string index
		vc.declRaw("fn:str_at", "(declare-fun str_at (Str Int) Int)")
		fr.safe("bounds", and(le("0", k.t), lt(k.t, app("str_len", m.t))))
		r := app("str_at", m.t, k.t)
		vc.assume(inRange(r, "0", "255"))
		return SV{t: r, typ: x.Type()}
	}
	hv, hp, _, _ := vc.mapHeaps(mt)
	kt := vc.mapKey(mt, vc.conv(k, mt.Key()))
	present := and(not(eq(m.t, "0")), sel(sel(vc.heapGet(cur, hp), m.t), kt))
	val := ite(present, sel(sel(vc.heapGet(cur, hv), m.t), kt), vc.zero(mt.Elem()))
	if x.CommaOk {
		return SV{typ: x.Type(), tup: []SV{{t: val, typ: mt.Elem()}, {t: present, typ: types.Typ[types.Bool]}}}
	}
	return SV{t: val, typ: mt.Elem()}
}

func (fr *frame) mapUpdate(x *ssa.MapUpdate, cur *State) {
	vc := fr.vc
	m := fr.val(x.Map)
	k := fr.val(x.Key)
	v := fr.val(x.Value)
	mt := x.Map.Type().Underlying().(*types.Map)
	hv, hp, _, _ := vc.mapHeaps(mt)
	fr.safe("nilmap", not(eq(m.t, "0")))
	kt := vc.mapKey(mt, vc.conv(k, mt.Key()))
	h := vc.heapGet(cur, hv)
	p := vc.heapGet(cur, hp)
	vc.heapSet(cur, hv, sto(h, m.t, sto(sel(h, m.t), kt, vc.conv(v, mt.Elem()))))
	vc.heapSet(cur, hp, sto(p, m.t, sto(sel(p, m.t), kt, tTrue)))
	fr.nameHeaps(cur)
}

func (fr *frame) mapDelete(args []SV, cur *State) SV {
	vc := fr.vc
	m, k := args[0], args[1]
	mt := m.typ.Underlying().(*types.Map)
	_, hp, _, _ := vc.mapHeaps(mt)
	kt := vc.mapKey(mt, vc.conv(k, mt.Key()))
	p := vc.heapGet(cur, hp)
	vc.heapSet(cur, hp, ite(eq(m.t, "0"), p, sto(p, m.t, sto(sel(p, m.t), kt, tFalse))))
	return SV{t: "0"}
}

func (fr *frame) mapLen(m SV, cur *State, rtyp types.Type) SV {
	vc := fr.vc
	mt, ok := m.typ.Underlying().(*types.Map)
	if !ok {
		r := vc.fresh("maplen", "Int")
		vc.assume(le("0", r))
		return SV{t: r, typ: rtyp}
	}
	_, hp, ks, _ := vc.mapHeaps(mt)
	fn := "maplen_" + sanitize(ks)
	vc.declRaw("fn:"+fn, fmt.Sprintf("(declare-fun %s ((Array %s Bool)) Int)", fn, ks))
	pres := ite(eq(m.t, "0"), "((as const (Array "+ks+" Bool)) false)", sel(vc.heapGet(cur, hp), m.t))
	r := vc.nameTerm2("maplen", app(fn, pres), "Int")
	vc.assume(and(le("0", r), le(r, "281474976710656")))
	vc.assumes["len(map) is a non-negative function of the set of keys present (it equals the number of keys a range over the map visits)"] = true
	return SV{t: r, typ: rtyp}
}

// ---------------------------------------------------------------- range over a map
//
// `for k, v := range m`: the iteration visits the keys present when the loop starts, each exactly once, in an
// order the program cannot rely on. Per range instruction N (ordinal in source order) three fresh symbols are
// declared: rngN_len, rngN_key : Int -> K (the visiting order) and rngN_idx : K -> Int (its inverse), with
//   0 <= i < len  ==>  present0[key(i)] && idx(key(i)) == i
//   present0[k]   ==>  0 <= idx(k) < len && key(idx(k)) == k
// The position lives in the ghost heap Hrng[N] so that loop invariants can mention it (iterpos(N)).
// ASSUMED (Go spec): the loop body inserts no key into the ranged map; it may delete keys already visited.

func (fr *frame) rangeOrdinal(x *ssa.Range) int {
	var all []*ssa.Range
	for _, b := range fr.fn.Blocks {
		for _, ins := range b.Instrs {
			if r, ok := ins.(*ssa.Range); ok {
				all = append(all, r)
			}
		}
	}
	sort.SliceStable(all, func(i, j int) bool { return all[i].Pos() < all[j].Pos() })
	for i, r := range all {
		if r == x {
			return i + 1
		}
	}
	return 0
}

func (vc *VC) rangeSyms(n int, ks string) (string, string, string) {
	pfx := fmt.Sprintf("rng%d", n)
	if vc.name != "" || vc.fn == nil {
		pfx = "rng" + fmt.Sprint(n)
	}
	if ks != "" {
		vc.declRaw("fn:"+pfx, fmt.Sprintf("(declare-const %s_len Int)\n(declare-fun %s_key (Int) %s)\n(declare-fun %s_idx (%s) Int)", pfx, pfx, ks, pfx, ks))
	}
	return pfx + "_len", pfx + "_key", pfx + "_idx"
}

func (fr *frame) rangeOp(x *ssa.Range, cur *State) SV {
	vc := fr.vc
	mt, ok := x.X.Type().Underlying().(*types.Map)
	if !ok {
		vc.errorf("range over a string is not supported in %s", funcKey(fr.fn))
		return SV{t: "0", typ: x.Type()}
	}
	if fr.depth > 0 {
		vc.errorf("range over a map inside an inlined callee (%s)", funcKey(fr.fn))
	}
	m := fr.val(x.X)
	_, hp, ks, _ := vc.mapHeaps(mt)
	n := fr.rangeOrdinal(x)
	ln, key, idx := vc.rangeSyms(n, ks)
	p0 := vc.nameTerm2("present0", ite(eq(m.t, "0"), "((as const (Array "+ks+" Bool)) false)", sel(vc.heapGet(cur, hp), m.t)), "(Array "+ks+" Bool)")
	vc.assume(le("0", ln))
	{
		fn := "maplen_" + sanitize(ks)
		vc.declRaw("fn:"+fn, fmt.Sprintf("(declare-fun %s ((Array %s Bool)) Int)", fn, ks))
		vc.assume(eq(ln, app(fn, p0)))
		vc.assume(le(ln, "281474976710656")) // as for slices: fewer than 2^48 entries
	}
	vc.assume(fmt.Sprintf("(forall ((rg_i Int)) (! (=> (and (<= 0 rg_i) (< rg_i %s)) (and (select %s (%s rg_i)) (= (%s (%s rg_i)) rg_i))) :pattern ((%s rg_i))))", ln, p0, key, idx, key, key))
	vc.assume(fmt.Sprintf("(forall ((rg_k %s)) (! (=> (select %s rg_k) (and (<= 0 (%s rg_k)) (< (%s rg_k) %s) (= (%s (%s rg_k)) rg_k))) :pattern ((%s rg_k)) :pattern ((select %s rg_k))))", ks, p0, idx, idx, ln, key, idx, idx, p0))
	if aks := vc.sortOf(mt.Key()); strings.HasPrefix(aks, "(Array") {
		// array-keyed map: the heaps are indexed by the integer codes of the keys; every code present in the map is the
		// code of the array it decodes to (it was inserted as arrid(k))
		sfx := sanitize(aks)
		vc.assume(fmt.Sprintf("(forall ((rg_i Int)) (! (=> (and (<= 0 rg_i) (< rg_i %s)) (= (arrid%s (arrid_inv%s (%s rg_i))) (%s rg_i))) :pattern ((%s rg_i))))", ln, sfx, sfx, key, key, key))
	}
	vc.ensureHeap("Hrng", "Int", nil, false)
	vc.heapSet(cur, "Hrng", sto(vc.heapGet(cur, "Hrng"), num(int64(n)), "0"))
	vc.assumes["range over a map: the keys present at loop entry are visited once each in an arbitrary order; the body inserts no key into the ranged map"] = true
	return SV{t: num(int64(n)), typ: x.Type(), rngMap: &m, rngType: mt}
}

func (fr *frame) nextOp(x *ssa.Next, cur *State) SV {
	vc := fr.vc
	it := fr.val(x.Iter)
	if x.IsString || it.rngMap == nil {
		vc.errorf("range over a string is not supported in %s", funcKey(fr.fn))
		return SV{t: "0", typ: x.Type()}
	}
	mt := it.rngType
	hv, hp, ks, _ := vc.mapHeaps(mt)
	var n int
	fmt.Sscan(it.t, &n)
	ln, key, _ := vc.rangeSyms(n, ks)
	vc.ensureHeap("Hrng", "Int", nil, false)
	pos := sel(vc.heapGet(cur, "Hrng"), it.t)
	ok := and(le("0", pos), lt(pos, ln))
	k := app(key, pos)
	m := it.rngMap
	present := and(not(eq(m.t, "0")), sel(sel(vc.heapGet(cur, hp), m.t), k))
	v := ite(present, sel(sel(vc.heapGet(cur, hv), m.t), k), vc.zero(mt.Elem()))
	vc.heapSet(cur, "Hrng", sto(vc.heapGet(cur, "Hrng"), it.t, ite(ok, add(pos, "1"), pos)))
	kv := k
	if aks := vc.sortOf(mt.Key()); strings.HasPrefix(aks, "(Array") {
		kv = app("arrid_inv"+sanitize(aks), k) // the Go-level key value is the array the code stands for
	}
	return SV{typ: x.Type(), tup: []SV{{t: ok, typ: types.Typ[types.Bool]}, {t: kv, typ: mt.Key()}, {t: v, typ: mt.Elem()}}}
}

// rangeKeySort: SMT sort of the keys of the n-th map range of the function under verification.
func (vc *VC) rangeKeySort(n int) string {
	if vc.fn == nil {
		return ""
	}
	var all []*ssa.Range
	for _, b := range vc.fn.Blocks {
		for _, ins := range b.Instrs {
			if r, ok := ins.(*ssa.Range); ok {
				all = append(all, r)
			}
		}
	}
	sort.SliceStable(all, func(i, j int) bool { return all[i].Pos() < all[j].Pos() })
	if n < 1 || n > len(all) {
		return ""
	}
	mt, ok := all[n-1].X.Type().Underlying().(*types.Map)
	if !ok {
		return ""
	}
	return vc.sortOf(mt.Key())
}

// mapKey converts a key value of map type mt to the index used in the map heaps.
func (vc *VC) mapKey(mt *types.Map, k T) T {
	if ks := vc.sortOf(mt.Key()); strings.HasPrefix(ks, "(Array") {
		vc.mapHeaps(mt)
		return app("arrid"+sanitize(ks), k)
	}
	return k
}
