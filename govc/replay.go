package main

// Counterexample replay: a solver model for a failed obligation is turned into concrete
// inputs, the REAL function is run on them in an in-package test injected with `go test
// -overlay`, and the observed outcome is judged against the contract (by the solver, with every
// observed value pinned). Only a definite violation of a contract clause by the real run counts
// as confirmed.

import (
	"bytes"
	"context"
	"encoding/json"
	"fmt"
	"go/types"
	"math/big"
	"os"
	"os/exec"
	"path/filepath"
	"sort"
	"strings"
	"time"
)

type obsKind int

const (
	okInt obsKind = iota
	okBool
	okStr
	okBigPtr
	okBigWrap
	okStructPtr
	okBytes
	okIface
	okUnsupported
)

type obs struct {
	name  string // Go-side variable name
	kind  obsKind
	typ   types.Type
	term  T // the SMT term of the value (param constant)
	terms map[string]T
	field []obs // struct pointer fields
}

type ReplayResult struct {
	Attempted bool              `json:"attempted"`
	Confirmed bool              `json:"confirmed"`
	Why       string            `json:"why"`
	Inputs    map[string]string `json:"inputs,omitempty"`
	Observed  json.RawMessage   `json:"observed,omitempty"`
	TestFile  string            `json:"-"`
	TestSrc   string            `json:"test_source,omitempty"`
	PkgDir    string            `json:"package_dir,omitempty"`
	Clause    string            `json:"violated_clause,omitempty"`
	GoOutput  string            `json:"go_output,omitempty"`
}

func (vc *VC) paramObs(name string, sv SV) obs {
	t := sv.typ
	o := obs{name: name, typ: t, term: sv.t, terms: map[string]T{}}
	if vc.mode != HeapMode {
		o.kind = okUnsupported
		return o
	}
	switch {
	case isIntType(t):
		o.kind = okInt
		o.terms["v"] = sv.t
	case vc.sortOf(t) == "Bool":
		o.kind = okBool
		o.terms["v"] = sv.t
	case isStringType(t):
		o.kind = okStr
		o.terms["len"] = app("str_len", sv.t)
	case vc.sortOf(t) == "Slice":
		if sl, ok := t.Underlying().(*types.Slice); ok {
			if b, ok := sl.Elem().Underlying().(*types.Basic); ok && b.Kind() == types.Uint8 {
				o.kind = okBytes
				o.terms["ref"] = app("s_ref", sv.t)
				o.terms["off"] = app("s_off", sv.t)
				o.terms["len"] = app("s_len", sv.t)
				o.terms["cap"] = app("s_cap", sv.t)
				row := sel(vc.arrHeap(sl.Elem())+"@0", app("s_ref", sv.t))
				for i := 0; i < 40; i++ {
					o.terms[fmt.Sprintf("e%d", i)] = sel(row, add(app("s_off", sv.t), num(int64(i))))
				}
				return o
			}
		}
		o.kind = okUnsupported
	default:
		if p, ok := t.Underlying().(*types.Pointer); ok {
			if typeKey(p.Elem()) == "math/big.Int" {
				o.kind = okBigPtr
				o.terms["ref"] = sv.t
				o.terms["v"] = sel("BIG@0", sv.t)
				return o
			}
			if st, ok := p.Elem().Underlying().(*types.Struct); ok {
				o.kind = okStructPtr
				o.terms["ref"] = sv.t
				cell := sel(vc.cellHeap(p.Elem())+"@0", sv.t)
				s := vc.sortOf(p.Elem())
				for i := 0; i < st.NumFields(); i++ {
					ft := st.Field(i).Type()
					if !isIntType(ft) && vc.sortOf(ft) != "Bool" {
						o.kind = okUnsupported
						return o
					}
					o.terms["f"+st.Field(i).Name()] = app(fmt.Sprintf("%s_f%d", s, i), cell)
				}
				return o
			}
		}
		if st, ok := t.Underlying().(*types.Struct); ok && st.NumFields() == 1 {
			if p, ok := st.Field(0).Type().Underlying().(*types.Pointer); ok && typeKey(p.Elem()) == "math/big.Int" {
				o.kind = okBigWrap
				ref := app(fmt.Sprintf("%s_f0", vc.sortOf(t)), sv.t)
				o.terms["ref"] = ref
				o.terms["v"] = sel("BIG@0", ref)
				return o
			}
		}
		o.kind = okUnsupported
	}
	return o
}

// getValues asks a solver for the values of terms in a model of the obligation's query.
func (vc *VC) getValues(o *Obligation, terms []T, tmpdir string) (map[T]string, error) {
	q := vc.buildQuery(o)
	q += "(get-value (" + strings.Join(terms, " ") + "))\n"
	file := filepath.Join(tmpdir, "model_"+sanitize(o.Name)+".smt2")
	if err := os.WriteFile(file, []byte(q), 0o644); err != nil {
		return nil, err
	}
	for _, s := range []string{"z3new", "z3", "cvc5"} {
		ans, out, _ := runOne(context.Background(), s, file, 20*time.Second)
		if ans != "sat" {
			continue
		}
		i := strings.Index(out, "sat")
		sxs, err := parseSx(out[i+3:])
		if err != nil || len(sxs) == 0 {
			continue
		}
		vals := map[T]string{}
		for _, pair := range sxs[0].List {
			if pair.IsList && len(pair.List) == 2 {
				vals[pair.List[0].String()] = pair.List[1].String()
			}
		}
		return vals, nil
	}
	return nil, fmt.Errorf("no solver produced a model")
}

func modelInt(v string) (*big.Int, bool) {
	sx, err := parseSx(v)
	if err != nil || len(sx) != 1 {
		return nil, false
	}
	return sxInt(sx[0])
}

type goGen struct {
	sb      strings.Builder
	bigVars map[string]string // big ref -> var
	bufVars map[string]string // slice ref -> var
	n       int
	pins    []T
	inputs  map[string]string
	postObs []string // Go statements appending observations
}

func goIntLit(v *big.Int, t types.Type) string {
	return fmt.Sprintf("%s(%s)", types.TypeString(t, func(p *types.Package) string { return "" }), v.String())
}

// replayFunction runs the real function on the model's inputs and judges the outcome.
func (e *Engine) replayFunction(vc *VC, o *Obligation, tmpdir string) *ReplayResult {
	rr := &ReplayResult{}
	if vc.fn == nil || vc.mode != HeapMode {
		rr.Why = "no generic replay binder for this function (value-mode / ghost-state contract)"
		return rr
	}
	sig := vc.fn.Signature
	var names []string
	names = append(names, vc.paramOrderNames()...)
	var all []obs
	var terms []T
	for _, n := range names {
		ob := vc.paramObs(n, vc.params[n])
		if ob.kind == okUnsupported {
			rr.Why = fmt.Sprintf("parameter %s of type %s has no replay encoding", n, ob.typ)
			return rr
		}
		all = append(all, ob)
		var ks []string
		for k := range ob.terms {
			ks = append(ks, k)
		}
		sort.Strings(ks)
		for _, k := range ks {
			terms = append(terms, ob.terms[k])
		}
	}
	terms = append(terms, "alloc@0")
	vals, err := vc.getValues(o, terms, tmpdir)
	if err != nil {
		rr.Why = "model extraction failed: " + err.Error()
		return rr
	}
	rr.Attempted = true
	g := &goGen{bigVars: map[string]string{}, bufVars: map[string]string{}, inputs: map[string]string{}}
	var argExprs []string
	var decl strings.Builder
	var obsPost strings.Builder
	for _, ob := range all {
		get := func(k string) (*big.Int, bool) {
			v, ok := vals[ob.terms[k]]
			if !ok {
				return nil, false
			}
			return modelInt(v)
		}
		switch ob.kind {
		case okInt:
			v, ok := get("v")
			if !ok {
				rr.Why = "non-numeric model value for " + ob.name
				return rr
			}
			argExprs = append(argExprs, goIntLit(v, ob.typ))
			g.inputs[ob.name] = v.String()
			g.pins = append(g.pins, eq(ob.terms["v"], numBig(v)))
		case okBool:
			v := vals[ob.terms["v"]]
			argExprs = append(argExprs, v)
			g.inputs[ob.name] = v
			g.pins = append(g.pins, eq(ob.terms["v"], v))
		case okStr:
			l, ok := get("len")
			if !ok || !l.IsInt64() || l.Int64() > 1<<16 {
				rr.Why = "string length not replayable"
				return rr
			}
			argExprs = append(argExprs, fmt.Sprintf("strings.Repeat(\"x\", %d)", l.Int64()))
			g.inputs[ob.name] = fmt.Sprintf("string of length %d", l.Int64())
			g.pins = append(g.pins, eq(ob.terms["len"], numBig(l)))
		case okBigPtr, okBigWrap:
			ref, ok1 := get("ref")
			v, ok2 := get("v")
			if !ok1 || !ok2 {
				rr.Why = "non-numeric model value for " + ob.name
				return rr
			}
			g.pins = append(g.pins, eq(ob.terms["ref"], numBig(ref)))
			var expr string
			if ref.Sign() == 0 {
				expr = "nil"
				g.inputs[ob.name] = "nil"
			} else {
				g.pins = append(g.pins, eq(ob.terms["v"], numBig(v)))
				name, seen := g.bigVars[ref.String()]
				if !seen {
					name = fmt.Sprintf("b%d", len(g.bigVars))
					g.bigVars[ref.String()] = name
					fmt.Fprintf(&decl, "\t%s := bigOf(%q)\n", name, v.String())
					fmt.Fprintf(&obsPost, "\tout.Post[%q] = %s.String()\n", ref.String(), name)
				}
				expr = name
				g.inputs[ob.name] = v.String()
			}
			if ob.kind == okBigWrap {
				st := ob.typ.Underlying().(*types.Struct)
				tn := types.TypeString(ob.typ, func(p *types.Package) string { return "" })
				expr = fmt.Sprintf("%s{%s: %s}", tn, st.Field(0).Name(), expr)
			}
			argExprs = append(argExprs, expr)
		case okStructPtr:
			p := ob.typ.Underlying().(*types.Pointer)
			st := p.Elem().Underlying().(*types.Struct)
			tn := types.TypeString(p.Elem(), func(p *types.Package) string { return "" })
			ref, _ := get("ref")
			if ref == nil || ref.Sign() == 0 {
				rr.Why = "nil struct pointer input"
				return rr
			}
			g.pins = append(g.pins, eq(ob.terms["ref"], numBig(ref)))
			var fs []string
			var desc []string
			for i := 0; i < st.NumFields(); i++ {
				fn := st.Field(i).Name()
				tv := vals[ob.terms["f"+fn]]
				if iv, ok := modelInt(tv); ok {
					fs = append(fs, fmt.Sprintf("%s: %s", fn, goIntLit(iv, st.Field(i).Type())))
					g.pins = append(g.pins, eq(ob.terms["f"+fn], numBig(iv)))
					desc = append(desc, fn+"="+iv.String())
				} else {
					fs = append(fs, fmt.Sprintf("%s: %s", fn, tv))
					g.pins = append(g.pins, eq(ob.terms["f"+fn], tv))
					desc = append(desc, fn+"="+tv)
				}
			}
			name := fmt.Sprintf("sp%d", g.n)
			g.n++
			fmt.Fprintf(&decl, "\t%s := &%s{%s}\n", name, tn, strings.Join(fs, ", "))
			for i := 0; i < st.NumFields(); i++ {
				fn := st.Field(i).Name()
				fmt.Fprintf(&obsPost, "\tout.Post[%q] = fmt.Sprint(%s.%s)\n", ref.String()+"."+fn, name, fn)
			}
			argExprs = append(argExprs, name)
			g.inputs[ob.name] = "&{" + strings.Join(desc, " ") + "}"
		case okBytes:
			ref, _ := get("ref")
			off, _ := get("off")
			ln, _ := get("len")
			cp, _ := get("cap")
			if ref == nil || off == nil || ln == nil || cp == nil || !cp.IsInt64() || cp.Int64() > 1<<20 || !off.IsInt64() || off.Int64() > 1<<20 {
				rr.Why = "slice shape not replayable (too large)"
				return rr
			}
			for _, k := range []string{"ref", "off", "len", "cap"} {
				v, _ := get(k)
				g.pins = append(g.pins, eq(ob.terms[k], numBig(v)))
			}
			if ref.Sign() == 0 {
				argExprs = append(argExprs, "[]byte(nil)")
				g.inputs[ob.name] = "nil"
				continue
			}
			if ln.Int64() > 40 {
				rr.Why = "slice longer than the replay window (40 bytes)"
				return rr
			}
			buf, seen := g.bufVars[ref.String()]
			if !seen {
				buf = fmt.Sprintf("buf%d", len(g.bufVars))
				g.bufVars[ref.String()] = buf
				fmt.Fprintf(&decl, "\t%s := make([]byte, %d)\n", buf, off.Int64()+cp.Int64()+64)
				fmt.Fprintf(&obsPost, "\tout.Post[%q] = fmt.Sprintf(\"%%x\", %s)\n", "buf:"+ref.String(), buf)
			}
			var elems []string
			for i := int64(0); i < ln.Int64(); i++ {
				ev, ok := get(fmt.Sprintf("e%d", i))
				if !ok {
					ev = big.NewInt(0)
				}
				b := new(big.Int).And(ev, big.NewInt(255))
				fmt.Fprintf(&decl, "\t%s[%d] = %d\n", buf, off.Int64()+i, b.Int64())
				g.pins = append(g.pins, eq(ob.terms[fmt.Sprintf("e%d", i)], b.String()))
				elems = append(elems, fmt.Sprintf("%02x", b.Int64()))
			}
			argExprs = append(argExprs, fmt.Sprintf("%s[%d:%d:%d]", buf, off.Int64(), off.Int64()+ln.Int64(), off.Int64()+cp.Int64()))
			g.inputs[ob.name] = fmt.Sprintf("len=%d cap=%d bytes=%s", ln.Int64(), cp.Int64(), strings.Join(elems, ""))
		}
	}
	rr.Inputs = g.inputs
	if a0, ok := modelInt(vals["alloc@0"]); ok {
		g.pins = append(g.pins, eq("alloc@0", numBig(a0)))
	}
	// call expression
	var call string
	if sig.Recv() != nil {
		call = fmt.Sprintf("(%s).%s(%s)", argExprs[0], vc.fn.Name(), strings.Join(argExprs[1:], ", "))
	} else {
		call = fmt.Sprintf("%s(%s)", vc.fn.Name(), strings.Join(argExprs, ", "))
	}
	nres := sig.Results().Len()
	var resNames []string
	for i := 0; i < nres; i++ {
		resNames = append(resNames, fmt.Sprintf("r%d", i))
	}
	var resObs strings.Builder
	for i := 0; i < nres; i++ {
		rt := sig.Results().At(i).Type()
		switch {
		case isIntType(rt), vc.sortOf(rt) == "Bool":
			fmt.Fprintf(&resObs, "\t\tout.Res = append(out.Res, fmt.Sprint(r%d))\n", i)
		case isStringType(rt):
			fmt.Fprintf(&resObs, "\t\tout.Res = append(out.Res, fmt.Sprint(len(r%d)))\n", i)
		case vc.sortOf(rt) == "Iface":
			fmt.Fprintf(&resObs, "\t\tout.Res = append(out.Res, fmt.Sprint(r%d == nil))\n", i)
		case vc.sortOf(rt) == "Slice":
			fmt.Fprintf(&resObs, "\t\tout.Res = append(out.Res, sliceObs(r%d))\n", i)
		default:
			if p, ok := rt.Underlying().(*types.Pointer); ok && typeKey(p.Elem()) == "math/big.Int" {
				fmt.Fprintf(&resObs, "\t\tout.Res = append(out.Res, bigObs(r%d, inputs))\n", i)
			} else if st, ok := rt.Underlying().(*types.Struct); ok && st.NumFields() == 1 {
				fmt.Fprintf(&resObs, "\t\tout.Res = append(out.Res, bigObs(r%d.%s, inputs))\n", i, st.Field(0).Name())
			} else {
				fmt.Fprintf(&resObs, "\t\tout.Res = append(out.Res, \"?\")\n")
			}
		}
	}
	var inputsMap strings.Builder
	for ref, name := range g.bigVars {
		fmt.Fprintf(&inputsMap, "\tinputs[%s] = %q\n", name, ref)
	}
	assign := ""
	if nres > 0 {
		assign = strings.Join(resNames, ", ") + " := "
	}
	pkgName := vc.fn.Pkg.Pkg.Name()
	src := fmt.Sprintf(`package %s

import (
	"encoding/json"
	"fmt"
	"math/big"
	"strings"
	"testing"
)

var _ = strings.Repeat
var _ = big.NewInt

type govcOut struct {
	Panicked  bool
	PanicType string
	PanicMsg  string
	Res       []string
	Post      map[string]string
}

func bigOf(s string) *big.Int { b, _ := new(big.Int).SetString(s, 10); return b }

func bigObs(b *big.Int, inputs map[*big.Int]string) string {
	if b == nil {
		return "nil"
	}
	if r, ok := inputs[b]; ok {
		return "alias:" + r + ":" + b.String()
	}
	return "fresh:" + b.String()
}

func sliceObs(b []byte) string {
	if b == nil {
		return "nil"
	}
	return fmt.Sprintf("%%d:%%d:%%x", len(b), cap(b), b)
}

func TestGovcReplay(t *testing.T) {
	out := govcOut{Post: map[string]string{}}
	inputs := map[*big.Int]string{}
%s%s
	func() {
		defer func() {
			if r := recover(); r != nil {
				out.Panicked = true
				out.PanicType = fmt.Sprintf("%%T", r)
				out.PanicMsg = fmt.Sprint(r)
			}
		}()
		%s%s
		_ = inputs
%s	}()
%s
	bz, _ := json.Marshal(out)
	fmt.Println("GOVC-REPLAY " + string(bz))
}
`, pkgName, decl.String(), inputsMap.String(), assign, call, resObs.String(), obsPost.String())
	rel := strings.TrimPrefix(vc.fn.Pkg.Pkg.Path(), repoMod+"/")
	dir := filepath.Join(e.repo, rel)
	testPath := filepath.Join(tmpdir, "replay_"+sanitize(o.Name)+"_test.go")
	os.WriteFile(testPath, []byte(src), 0o644)
	rr.TestFile = testPath
	rr.TestSrc = src
	rr.PkgDir = rel
	outTxt, err := runOverlayTest(e.repo, dir, testPath, "TestGovcReplay", tmpdir)
	rr.GoOutput = tail(outTxt, 2000)
	i := strings.Index(outTxt, "GOVC-REPLAY ")
	if i < 0 {
		rr.Why = "replay test produced no observation (build or run failure): " + fmt.Sprint(err)
		return rr
	}
	line := outTxt[i+len("GOVC-REPLAY "):]
	if j := strings.Index(line, "\n"); j >= 0 {
		line = line[:j]
	}
	rr.Observed = json.RawMessage(line)
	var obsv struct {
		Panicked  bool
		PanicType string
		PanicMsg  string
		Res       []string
		Post      map[string]string
	}
	if err := json.Unmarshal([]byte(line), &obsv); err != nil {
		rr.Why = "cannot parse observation"
		return rr
	}
	e.judge(vc, g, obsv.Panicked, obsv.PanicType, obsv.Res, obsv.Post, rr, tmpdir)
	return rr
}

func tail(s string, n int) string {
	if len(s) > n {
		return s[len(s)-n:]
	}
	return s
}

func (vc *VC) paramOrderNames() []string {
	var names []string
	con := vc.con
	if con.Recv != "" {
		names = append(names, con.Recv)
	}
	names = append(names, con.Params...)
	return names
}

// runOverlayTest injects testFile into pkgDir via -overlay and runs one test.
func runOverlayTest(repo, pkgDir, testFile, run, tmpdir string) (string, error) {
	ov := map[string]map[string]string{"Replace": {filepath.Join(pkgDir, "zz_govc_replay_test.go"): testFile}}
	b, _ := json.Marshal(ov)
	ovPath := filepath.Join(tmpdir, "overlay_"+filepath.Base(testFile)+".json")
	os.WriteFile(ovPath, b, 0o644)
	ctx, cancel := context.WithTimeout(context.Background(), 180*time.Second)
	defer cancel()
	cmd := exec.CommandContext(ctx, "go", "test", "-overlay", ovPath, "-vet=off", "-count=1", "-timeout", "60s", "-run", "^"+run+"$", "-v", ".")
	cmd.Dir = pkgDir
	cmd.Env = append(os.Environ(), "GOFLAGS=-mod=mod", "GOPROXY=off", "GOSUMDB=off", "GOTOOLCHAIN=local")
	var out bytes.Buffer
	cmd.Stdout = &out
	cmd.Stderr = &out
	err := cmd.Run()
	return out.String(), err
}

// judge pins inputs and observed outputs and asks, per contract clause, whether it is
// definitely violated by the real execution.
func (e *Engine) judge(vc *VC, g *goGen, panicked bool, panicType string, res []string, post map[string]string, rr *ReplayResult, tmpdir string) {
	jvc := e.newVC(vc.fn, vc.con)
	jvc.decl("alloc@0", "Int")
	jvc.assume(lt("0", "alloc@0"))
	jvc.registerGhosts()
	jvc.ensureHeap("BIG", "Int", nil, false)
	entry := &State{heaps: map[string]T{}, alloc: "alloc@0"}
	jvc.entry = entry
	con := vc.con
	names := vc.paramOrderNames()
	for i, p := range vc.fn.Params {
		c := vc.params[names[i]].t
		jvc.decl(c, jvc.sortOf(p.Type()))
		jvc.params[names[i]] = SV{t: c, typ: p.Type()}
		// make sure the heaps the observation terms mention exist
		jvc.paramObs(names[i], jvc.params[names[i]])
	}
	for _, p := range g.pins {
		jvc.assume(p)
	}
	env := jvc.topEnv(entry)
	check := func(f T) (bool, bool) { // (canBeTrue, canBeFalse)
		q := func(goal T) string {
			o := &Obligation{Name: "judge", Goal: not(goal), NFacts: len(jvc.facts), Expect: "unsat"}
			return jvc.buildQuery(o)
		}
		// buildQuery asserts (not Goal): to test satisfiability of X we pass Goal = not X
		r1 := solve(q(f), "judge_t", 10*time.Second, false, tmpdir, true)
		r2 := solve(q(not(f)), "judge_f", 10*time.Second, false, tmpdir, true)
		return r1.Answer == "sat", r2.Answer == "sat"
	}
	definitelyFalse := func(f T) bool {
		t, fl := check(f)
		return !t && fl
	}
	definitelyTrue := func(f T) bool {
		t, fl := check(f)
		return t && !fl
	}
	var panicsCl []*Clause
	for _, cl := range con.Clauses {
		if cl.Kind == "panics" {
			panicsCl = append(panicsCl, cl)
		}
	}
	if panicked {
		// violation iff no declared clause can explain the panic
		for _, cl := range panicsCl {
			if cl.Exc != "" && !excMatches(cl.Exc, panicType) {
				continue
			}
			if !definitelyFalse(jvc.evalBool(cl.Expr, env)) {
				rr.Why = fmt.Sprintf("the real code panics (%s) on the model's input, and the contract allows it: the solver's model does not reproduce", panicType)
				return
			}
		}
		if con.MayPanic {
			rr.Why = "real code panics; contract says may_panic"
			return
		}
		rr.Confirmed = true
		rr.Clause = "panics"
		rr.Why = fmt.Sprintf("the real code panics (%s) on this input although no `panics` clause of the contract holds", panicType)
		return
	}
	for _, cl := range panicsCl {
		if definitelyTrue(jvc.evalBool(cl.Expr, env)) {
			rr.Confirmed = true
			rr.Clause = "panics " + cl.Exc + " when " + cl.Text
			rr.Why = "the real code returns normally on this input although the contract requires a panic"
			return
		}
	}
	// post state
	pst := &State{heaps: map[string]T{}, alloc: jvc.fresh("alloc_post", "Int")}
	for k := range jvc.heapSort {
		c := k + "@post"
		jvc.decl(c, jvc.heapSort[k])
		pst.heaps[k] = c
	}
	frameViolated := ""
	modTargets := map[string]bool{}
	for _, cl := range con.Clauses {
		if cl.Kind == "modifies" {
			for _, me := range cl.Exprs {
				for _, tg := range jvc.resolveTargets(me, env) {
					modTargets[tg.heap] = true
				}
			}
		}
	}
	for key, v := range post {
		switch {
		case strings.HasPrefix(key, "buf:"):
			// contents of byte buffers are compared below only through results; record bytes
			ref := strings.TrimPrefix(key, "buf:")
			heap := "Ha_Int"
			if _, ok := jvc.heapSort[heap]; !ok {
				continue
			}
			bs := v
			for i := 0; i+1 < len(bs) && i/2 < 200; i += 2 {
				var b int64
				fmt.Sscanf(bs[i:i+2], "%x", &b)
				jvc.assume(eq(sel(sel(heap+"@post", ref), num(int64(i/2))), num(b)))
			}
		case strings.Contains(key, "."):
			parts := strings.SplitN(key, ".", 2)
			// struct pointer field
			for n, sv := range jvc.params {
				_ = n
				if p, ok := sv.typ.Underlying().(*types.Pointer); ok {
					if st, ok := p.Elem().Underlying().(*types.Struct); ok {
						heap := jvc.cellHeap(p.Elem())
						for i := 0; i < st.NumFields(); i++ {
							if st.Field(i).Name() == parts[1] {
								acc := fmt.Sprintf("%s_f%d", jvc.sortOf(p.Elem()), i)
								val := v
								if iv, ok := new(big.Int).SetString(v, 10); ok {
									val = numBig(iv)
								}
								jvc.assume(eq(app(acc, sel(heap+"@post", parts[0])), val))
							}
						}
					}
				}
			}
		default:
			iv, ok := new(big.Int).SetString(v, 10)
			if !ok {
				continue
			}
			jvc.assume(eq(sel("BIG@post", key), numBig(iv)))
			// operand mutation check
			if !modTargets["BIG"] {
				for _, p := range g.pins {
					if strings.HasPrefix(p, "(= (select BIG@0 ") && strings.Contains(p, " "+key+")") {
						_ = p
					}
				}
			}
		}
	}
	// frame on observed big cells: compare with pinned inputs
	for ref, v := range post {
		if strings.Contains(ref, ".") || strings.HasPrefix(ref, "buf:") {
			continue
		}
		nv, _ := new(big.Int).SetString(v, 10)
		for name, in := range g.inputs {
			_ = name
			_ = in
		}
		if nv != nil && !modTargets["BIG"] {
			// pre value: ask the pins
			t, f := check(eq(sel("BIG@0", ref), numBig(nv)))
			if !t && f {
				frameViolated = "BIG[" + ref + "] changed to " + v
			}
		}
	}
	if frameViolated != "" {
		rr.Confirmed = true
		rr.Clause = "frame (operands must not be mutated)"
		rr.Why = "the real code mutated an input cell outside the modifies clause: " + frameViolated
		return
	}
	// results
	penv := jvc.topEnv(pst)
	nextFresh := int64(0)
	for i, r := range res {
		rt := vc.fn.Signature.Results().At(i).Type()
		c := jvc.fresh("res", jvc.sortOf(rt))
		sv := SV{t: c, typ: rt}
		if i < len(con.Results) {
			penv.vars[con.Results[i]] = sv
		}
		penv.vars[fmt.Sprintf("r%d", i)] = sv
		switch {
		case isIntType(rt):
			iv, _ := new(big.Int).SetString(r, 10)
			if iv != nil {
				jvc.assume(eq(c, numBig(iv)))
			}
		case jvc.sortOf(rt) == "Bool":
			jvc.assume(eq(c, r))
		case isStringType(rt):
			jvc.assume(eq(app("str_len", c), r))
		case jvc.sortOf(rt) == "Iface":
			if r == "true" {
				jvc.assume(eq(app("i_type", c), "0"))
			} else {
				jvc.assume(not(eq(app("i_type", c), "0")))
			}
		case jvc.sortOf(rt) == "Slice":
			if r == "nil" {
				jvc.assume(eq(c, "(mk_slice 0 0 0 0)"))
			} else {
				var ln, cp int64
				var hex string
				fmt.Sscanf(r, "%d:%d:%s", &ln, &cp, &hex)
				nextFresh++
				ref := add("alloc@0", num(1000+nextFresh))
				jvc.assume(eq(c, app("mk_slice", ref, "0", num(ln), num(cp))))
				if sl, ok := rt.Underlying().(*types.Slice); ok {
					heap := jvc.arrHeap(sl.Elem())
					if _, ok := pst.heaps[heap]; !ok {
						jvc.decl(heap+"@post", jvc.heapSort[heap])
						pst.heaps[heap] = heap + "@post"
					}
					for k := 0; k+1 < len(hex); k += 2 {
						var b int64
						fmt.Sscanf(hex[k:k+2], "%x", &b)
						jvc.assume(eq(sel(sel(pst.heaps[heap], ref), num(int64(k/2))), num(b)))
					}
				}
			}
		default:
			// big results: "nil" | "alias:<ref>:<v>" | "fresh:<v>"
			var refT T
			var val string
			switch {
			case r == "nil":
				refT = "0"
			case strings.HasPrefix(r, "alias:"):
				parts := strings.SplitN(r, ":", 3)
				refT, val = parts[1], parts[2]
			case strings.HasPrefix(r, "fresh:"):
				nextFresh++
				refT = add("alloc@0", num(1000+nextFresh))
				val = strings.TrimPrefix(r, "fresh:")
			default:
				continue
			}
			if _, ok := rt.Underlying().(*types.Pointer); ok {
				jvc.assume(eq(c, refT))
			} else {
				jvc.assume(eq(app(fmt.Sprintf("%s_f0", jvc.sortOf(rt)), c), refT))
			}
			if val != "" {
				iv, _ := new(big.Int).SetString(val, 10)
				if iv != nil {
					jvc.assume(eq(sel("BIG@post", refT), numBig(iv)))
				}
			}
		}
	}
	// unobserved cells of BIG keep their entry value unless BIG is a modifies target
	i := 0
	for _, cl := range con.Clauses {
		if cl.Kind != "ensures" {
			continue
		}
		i++
		if definitelyFalse(jvc.evalBool(cl.Expr, penv)) {
			rr.Confirmed = true
			rr.Clause = "ensures " + cl.Text
			rr.Why = "the real code's result on this input violates the postcondition"
			return
		}
	}
	rr.Why = "the real code satisfies every contract clause on the model's input (the model is an artefact of an abstraction, or the failing obligation is internal)"
}

func excMatches(exc, goType string) bool {
	if exc == "string" || exc == "error" {
		return goType == exc || (exc == "error" && strings.HasPrefix(goType, "*"))
	}
	return strings.HasSuffix(goType, "."+exc) || goType == exc
}
