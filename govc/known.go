package main

import (
	"regexp"
	"encoding/json"
	"fmt"
	"os"
	"path/filepath"
	"strings"
	"time"
)

type KnownFinding struct {
	ID           string `json:"id"`
	Property     string `json:"property"`
	Obligation   string `json:"obligation"`
	ObligationRe string `json:"obligation_re,omitempty"` // alternative to Obligation: anchored regular expression (call ordinals shift with harmless edits)
	Status       string `json:"status"` // known | fixed
	What         string `json:"what"`
	WitnessClass string `json:"witness_class,omitempty"` // SMT-LIB boolean over the obligation's model constants
	ClassSpec    string `json:"class_spec,omitempty"`    // for function obligations: spec-language condition over the entry state; the obligation must still hold outside it
	WitnessSpec  string `json:"witness_spec,omitempty"`  // a region inside the class where a counterexample is easy to find (tried first)
	Replay       string `json:"replay,omitempty"`        // template under /verif/replay
	Commit       string `json:"commit,omitempty"`
}

type KnownFile struct {
	Findings []KnownFinding `json:"findings"`
}

func loadKnown(path string) *KnownFile {
	kf := &KnownFile{}
	if path == "" {
		return kf
	}
	b, err := os.ReadFile(path)
	if err != nil {
		return kf
	}
	json.Unmarshal(b, kf)
	return kf
}

func (kf *KnownFile) lookup(prop, obl string) *KnownFinding {
	for i := range kf.Findings {
		f := &kf.Findings[i]
		if f.Status == "known" && f.Property == prop && f.matches(obl) {
			return f
		}
	}
	return nil
}

func (f *KnownFinding) matches(obl string) bool {
	if f.Obligation != "" && f.Obligation == obl {
		return true
	}
	if f.ObligationRe != "" {
		if re, err := regexp.Compile("^(?:" + f.ObligationRe + ")$"); err == nil && re.MatchString(obl) {
			return true
		}
	}
	return false
}

// inWitnessClass: does the model of the failed obligation lie in the recorded class?
func (vc *VC) inWitnessClass(o *Obligation, class string, vals map[T]string, tmpdir string) bool {
	if class == "" || class == "true" {
		return true
	}
	var sb strings.Builder
	sb.WriteString("(set-logic ALL)\n")
	for t, v := range vals {
		if strings.ContainsAny(t, "( ") {
			continue
		}
		srt := "Int"
		if v == "true" || v == "false" {
			srt = "Bool"
		}
		fmt.Fprintf(&sb, "(declare-const %s %s)\n(assert (= %s %s))\n", t, srt, t, v)
	}
	sb.WriteString("(assert (not " + class + "))\n(check-sat)\n")
	r := solve(sb.String(), "wclass_"+o.Name, 10*time.Second, false, tmpdir, true)
	return r.Answer == "unsat"
}

// replayTemplate instantiates /verif/replay/<name>.go.tmpl with model values and runs it.
func (e *Engine) replayTemplate(name string, vals map[T]string, tmpdir string, tag string) *ReplayResult {
	rr := &ReplayResult{}
	tp := filepath.Join(filepath.Dir(e.specDir), "replay", name+".go.tmpl")
	b, err := os.ReadFile(tp)
	if err != nil {
		rr.Why = "replay template missing: " + tp
		return rr
	}
	src := string(b)
	rr.Inputs = map[string]string{}
	for t, v := range vals {
		lit := v
		if iv, ok := modelInt(v); ok {
			lit = iv.String()
		}
		src = strings.Replace(src, "{{"+t+"}}", lit, -1)
		rr.Inputs[t] = lit
	}
	pkgDir := ""
	for _, ln := range strings.Split(src, "\n") {
		if strings.HasPrefix(ln, "//pkg:") {
			pkgDir = strings.TrimSpace(strings.TrimPrefix(ln, "//pkg:"))
		}
	}
	if pkgDir == "" || strings.Contains(src, "{{") {
		rr.Why = "replay template not fully instantiated"
		return rr
	}
	testPath := filepath.Join(tmpdir, "replay_"+sanitize(tag)+"_test.go")
	os.WriteFile(testPath, []byte(src), 0o644)
	rr.Attempted = true
	rr.TestFile = testPath
	rr.TestSrc = src
	rr.PkgDir = pkgDir
	out, _ := runOverlayTest(e.repo, filepath.Join(e.repo, pkgDir), testPath, "TestGovcReplay", tmpdir)
	rr.GoOutput = tail(out, 2000)
	if i := strings.Index(out, "REPLAY-CONFIRMED"); i >= 0 {
		rr.Confirmed = true
		ln := out[i:]
		if j := strings.Index(ln, "\n"); j >= 0 {
			ln = ln[:j]
		}
		rr.Why = ln
	} else if strings.Contains(out, "REPLAY-NOT-REPRODUCED") {
		rr.Why = "the real code does not deviate on the model's input"
	} else {
		rr.Why = "replay test did not run to completion"
	}
	return rr
}
