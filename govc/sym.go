package main

// Symbolic values, sorts, heaps and the per-function VC context.

import (
	"fmt"
	"go/types"
	"sort"
	"strings"

	"golang.org/x/tools/go/ssa"
)

type Mode int

const (
	HeapMode  Mode = iota // full memory model: slices, *big.Int, structs on typed heaps
	ValueMode             // sdk.Int/Dec/Coins/Address etc. are mathematical values
)

const repoMod = "github.com/pokt-network/posmint"

// abstract value sorts used in ValueMode (type string -> sort)
var valueModeSorts = map[string]string{
	repoMod + "/types.Int":        "Int",
	repoMod + "/types.Uint":       "Int",
	repoMod + "/types.Dec":        "Int", // raw value times 10^18
	repoMod + "/types.Coins":      "Coins",
	repoMod + "/types.DecCoins":   "Coins",
	repoMod + "/types.Address":    "Bytes",
	repoMod + "/types.Ctx":        "Ctx",
	repoMod + "/types.Context":    "Ctx",
	"time.Time":                   "Int",
}

// sorts that are opaque in both modes
var opaqueSorts = map[string]string{
	"math/big.Int":  "Int",
	"sync.RWMutex":  "Int",
	"sync.Mutex":    "Int",
	"time.Time":     "Int",
	"time.Location": "Int",
}

type Loc struct {
	Heap string // heap name
	Ref  T      // object reference
	Idx  T      // element index for array heaps ("" otherwise)
	Path []pathElem
	Root types.Type // type of the cell addressed by (Heap,Ref[,Idx])
}

type pathElem struct {
	Field int        // field index, or -1 for array index
	Idx   T          // array index term
	In    types.Type // the aggregate type this element selects from
}

type SV struct {
	t   T
	typ types.Type
	loc *Loc
	tup []SV
	fn  *ssa.Function // static function value / closure
	bnd []SV          // closure bindings
	srt string        // SMT sort for spec-only values (typ == nil)
	dyn *SV           // for interface values built by MakeInterface: the boxed concrete value
	rngMap  *SV        // map iterator (ssa.Range): the ranged map
	rngType *types.Map
}

type State struct {
	heaps map[string]T
	alloc T
}

func (s *State) clone() *State {
	n := &State{heaps: make(map[string]T, len(s.heaps)), alloc: s.alloc}
	for k, v := range s.heaps {
		n.heaps[k] = v
	}
	return n
}

type Obligation struct {
	Name    string
	Kind    string // post, pre, safe, inv, frame, panic, lemma, cover, canary
	Goal    T      // full formula (guard => goal)
	NFacts  int
	Fn      string
	Answer  string
	Solver  string
	Ms      int64
	Output  string
	Bytes   int
	Expect  string // "unsat" normally; "sat" for covers/canaries
	Extra   []string // extra get-value terms
	Hints   []T      // instances of quantified hypotheses at the goal's terms
	KnownID string   // listed as a known finding: a short solver budget suffices (re-derivation is by replay when no model comes back)
	Witness T        // known finding: extra hypothesis under which a counterexample is searched first
}

type VC struct {
	arrOrigin map[T]arrOrig // value mode: byte strings obtained by slicing a whole local byte array
	eng      *Engine
	fn       *ssa.Function
	con      *Contract
	mode     Mode
	decls    []string
	declared map[string]bool
	facts    []T
	obls     []*Obligation
	nfresh   int
	heapSort map[string]string // heap name -> element sort (heap is Array Int elem) or full sort for ghosts
	heapElem map[string]types.Type
	heapRows map[string]bool
	appSeq   int
	panicWhat []string
	curApp   int // id of the contract application being evaluated (0: the function's own contract)
	heapMapKey map[string]string // map-value heaps: SMT sort of the key
	ghost    map[string]bool
	counters map[string]int
	assumes  map[string]bool // assumptions used (for the evidence)
	strConst map[string]string
	typeIDs  map[string]int
	depth    int
	dry      bool
	errs     []string
	entry    *State
	params   map[string]SV
	modLoops map[*ssa.BasicBlock]map[string]bool
	modFound map[*ssa.BasicBlock]map[string]bool
	panics   []panicSite
	globals  []string
	nonnil   map[T]bool
	used     map[string]bool
	preludeUsed map[string]bool
	stack    []*ssa.Function
	strict   bool
	preHeaps []string
	name     string
	paramOrder []string
	ghostType map[string]types.Type
	qhyps    []qhyp
	zarrs    map[string]string
	retLines []string
	goalSk   []T
	goalIdx  [][2]T
	progIdx  []T // index terms used by the program (candidates for instantiation)
	pendingHints []T
	splits   []T // case-split candidates (e.g. append fits in place) for obligations the solvers cannot decide whole
}

type panicSite struct {
	guard T
	val   SV
	st    *State
	what  string
	nf    int
}

func (vc *VC) fresh(prefix, sort string) T {
	vc.nfresh++
	name := fmt.Sprintf("%s!%d", prefix, vc.nfresh)
	name = sanitize(name)
	vc.decl(name, sort)
	return name
}

func sanitize(s string) string {
	return strings.Map(func(r rune) rune {
		switch {
		case r >= 'a' && r <= 'z', r >= 'A' && r <= 'Z', r >= '0' && r <= '9', r == '_', r == '!', r == '.', r == '$':
			return r
		}
		return '_'
	}, s)
}

func (vc *VC) decl(name, sort string) {
	if vc.declared[name] {
		return
	}
	vc.declared[name] = true
	vc.decls = append(vc.decls, fmt.Sprintf("(declare-fun %s () %s)", name, sort))
}

func (vc *VC) declRaw(key, text string) {
	if vc.declared[key] {
		return
	}
	vc.declared[key] = true
	vc.decls = append(vc.decls, text)
}

func (vc *VC) assume(f T) {
	if f == tTrue {
		return
	}
	vc.facts = append(vc.facts, f)
}

func (vc *VC) errorf(format string, a ...interface{}) {
	vc.errs = append(vc.errs, fmt.Sprintf(format, a...))
}

func (vc *VC) oblige(kind, name string, guard, goal T) *Obligation {
	if vc.dry {
		return nil
	}
	f := implies(guard, goal)
	if f == tTrue {
		// trivially discharged syntactically; still counted
		o := &Obligation{Name: vc.fnName() + "#" + name, Kind: kind, Goal: f, NFacts: len(vc.facts), Fn: vc.fnName(), Expect: "unsat", Answer: "unsat", Solver: "syntactic"}
		vc.obls = append(vc.obls, o)
		return o
	}
	o := &Obligation{Name: vc.fnName() + "#" + name, Kind: kind, Goal: f, NFacts: len(vc.facts), Fn: vc.fnName(), Expect: "unsat"}
	o.Hints = vc.pendingHints
	vc.pendingHints = nil
	vc.obls = append(vc.obls, o)
	return o
}

func (vc *VC) count(kind string) int {
	vc.counters[kind]++
	return vc.counters[kind]
}

func (vc *VC) fnName() string {
	if vc.name != "" {
		return vc.name
	}
	return funcKey(vc.fn)
}

// funcKey is the stable name of a function: pkgpath.(Recv).Name or pkgpath.Name
func funcKey(fn *ssa.Function) string {
	if fn == nil {
		return "?"
	}
	s := fn.String()
	s = strings.TrimPrefix(s, "(")
	s = strings.Replace(s, repoMod+"/", "", -1)
	s = strings.Replace(s, ").", ".", 1)
	return s
}

// ---------------------------------------------------------------- sorts

func typeKey(t types.Type) string {
	return types.TypeString(types.Unalias(t), nil)
}

func (vc *VC) sortOf(t types.Type) string {
	t = types.Unalias(t)
	if vc.mode == ValueMode {
		if s, ok := valueModeSorts[typeKey(t)]; ok {
			vc.needSort(s)
			return s
		}
	}
	if s, ok := opaqueSorts[typeKey(t)]; ok {
		return s
	}
	switch u := t.Underlying().(type) {
	case *types.Basic:
		switch {
		case u.Info()&types.IsBoolean != 0:
			return "Bool"
		case u.Info()&types.IsInteger != 0:
			return "Int"
		case u.Info()&types.IsString != 0:
			vc.needSort("Str")
			return "Str"
		case u.Kind() == types.UnsafePointer:
			return "Int"
		case u.Kind() == types.UntypedNil:
			return "Int"
		case u.Info()&types.IsFloat != 0:
			return "Real"
		}
	case *types.Pointer:
		return "Int"
	case *types.Slice:
		if vc.mode == ValueMode {
			if b, ok := u.Elem().Underlying().(*types.Basic); ok && b.Kind() == types.Uint8 {
				vc.needSort("Bytes")
				return "Bytes"
			}
		}
		vc.needSort("Slice")
		return "Slice"
	case *types.Struct:
		return vc.structSort(t, u)
	case *types.Array:
		return "(Array Int " + vc.sortOf(u.Elem()) + ")"
	case *types.Interface:
		vc.needSort("Iface")
		return "Iface"
	case *types.Map, *types.Chan, *types.Signature:
		return "Int"
	case *types.Tuple:
		return "Tuple?"
	}
	vc.errorf("unsupported type %s", t)
	return "Int"
}

func (vc *VC) needSort(s string) {}

// basePrelude declares the built-in sorts; it is emitted at the top of every query.
const basePrelude = `(declare-datatypes ((Slice 0)) (((mk_slice (s_ref Int) (s_off Int) (s_len Int) (s_cap Int)))))
(declare-datatypes ((Iface 0)) (((mk_iface (i_type Int) (i_val Int)))))
(declare-sort Str 0)
(declare-fun str_len (Str) Int)
(declare-fun str_lt (Str Str) Bool)
(declare-fun str_cat (Str Str) Str)
(assert (forall ((a Str) (b Str)) (! (and (=> (str_lt a b) (not (str_lt b a))) (or (str_lt a b) (= a b) (str_lt b a))) :pattern ((str_lt a b)))))
(assert (forall ((a Str) (b Str) (c Str)) (! (=> (and (str_lt a b) (str_lt b c)) (str_lt a c)) :pattern ((str_lt a b) (str_lt b c)))))
(assert (forall ((s Str)) (! (and (>= (str_len s) 0) (<= (str_len s) 281474976710656)) :pattern ((str_len s)))))
(declare-sort Bytes 0)
(declare-fun bytes_len (Bytes) Int)
(declare-fun bytes_nil () Bytes)
(declare-fun bytes_at (Bytes Int) Int)
(assert (forall ((s Bytes)) (! (and (>= (bytes_len s) 0) (<= (bytes_len s) 281474976710656)) :pattern ((bytes_len s)))))
(assert (= (bytes_len bytes_nil) 0))
(declare-fun bytes_lt (Bytes Bytes) Bool)
(assert (forall ((a Bytes) (b Bytes)) (! (=> (bytes_lt a b) (not (bytes_lt b a))) :pattern ((bytes_lt a b)))))
(assert (forall ((a Bytes)) (! (not (bytes_lt a bytes_nil)) :pattern ((bytes_lt a bytes_nil)))))
(assert (forall ((a Bytes) (b Bytes) (c Bytes)) (! (=> (and (bytes_lt a b) (bytes_lt b c)) (bytes_lt a c)) :pattern ((bytes_lt a b) (bytes_lt b c)))))
(assert (forall ((a Bytes) (b Bytes) (c Bytes)) (! (=> (and (not (bytes_lt a b)) (not (bytes_lt b c))) (not (bytes_lt a c))) :pattern ((bytes_lt a b) (bytes_lt b c)))))
(define-fun bytes_cmp ((a Bytes) (b Bytes)) Int (ite (bytes_lt a b) (- 1) (ite (bytes_lt b a) 1 0)))
(declare-sort Coins 0)
(declare-fun coins_amt (Coins Str) Int)
(declare-fun coins_nil () Coins)
(declare-fun coins_valid (Coins) Bool)
(assert (forall ((d Str)) (! (= (coins_amt coins_nil d) 0) :pattern ((coins_amt coins_nil d)))))
(declare-sort Ctx 0)
(declare-fun ctx_height (Ctx) Int)
(declare-fun ctx_time (Ctx) Int)
(declare-fun ctx_chainid (Ctx) Str)
(define-fun tdiv ((a Int) (b Int)) Int (ite (>= a 0) (ite (> b 0) (div a b) (- (div a (- b)))) (ite (> b 0) (- (div (- a) b)) (div (- a) (- b)))))
(define-fun tmod ((a Int) (b Int)) Int (- a (* b (tdiv a b))))
`

func structSortName(t types.Type) string {
	t = types.Unalias(t)
	if n, ok := t.(*types.Named); ok {
		p := ""
		if n.Obj().Pkg() != nil {
			p = n.Obj().Pkg().Path()
			p = strings.TrimPrefix(p, repoMod+"/")
			p = strings.Replace(p, "/", "_", -1)
			p = strings.Replace(p, ".", "_", -1)
			p = strings.Replace(p, "-", "_", -1)
		}
		name := n.Obj().Name()
		if n.TypeArgs() != nil && n.TypeArgs().Len() > 0 {
			name += fmt.Sprintf("_g%x", hashStr(typeKey(t)))
		}
		return "S_" + p + "_" + name
	}
	return fmt.Sprintf("S_anon_%x", hashStr(typeKey(t)))
}

func hashStr(s string) uint32 {
	var h uint32 = 2166136261
	for i := 0; i < len(s); i++ {
		h ^= uint32(s[i])
		h *= 16777619
	}
	return h
}

func (vc *VC) structSort(t types.Type, u *types.Struct) string {
	name := structSortName(t)
	if vc.mode == ValueMode {
		name += "_v"
	}
	if vc.declared["sort:"+name] {
		return name
	}
	vc.declared["sort:"+name] = true
	var fields []string
	for i := 0; i < u.NumFields(); i++ {
		fields = append(fields, fmt.Sprintf("(%s_f%d %s)", name, i, vc.sortOf(u.Field(i).Type())))
	}
	if len(fields) == 0 {
		vc.decls = append(vc.decls, fmt.Sprintf("(declare-datatypes ((%s 0)) (((mk_%s))))", name, name))
	} else {
		vc.decls = append(vc.decls, fmt.Sprintf("(declare-datatypes ((%s 0)) (((mk_%s %s))))", name, name, strings.Join(fields, " ")))
	}
	return name
}

func (vc *VC) zero(t types.Type) T {
	s := vc.sortOf(t)
	switch s {
	case "Int":
		return "0"
	case "Bool":
		return tFalse
	case "Real":
		return "0.0"
	case "Str":
		return vc.strLit("")
	case "Slice":
		return "(mk_slice 0 0 0 0)"
	case "Iface":
		return "(mk_iface 0 0)"
	case "Bytes":
		return "bytes_nil"
	case "Coins":
		return "coins_nil"
	case "Ctx":
		return vc.fresh("zero_ctx", "Ctx")
	}
	switch u := t.Underlying().(type) {
	case *types.Struct:
		if u.NumFields() == 0 {
			return "mk_" + s
		}
		var fs []T
		for i := 0; i < u.NumFields(); i++ {
			fs = append(fs, vc.zero(u.Field(i).Type()))
		}
		return app("mk_"+s, fs...)
	case *types.Array:
		return vc.constArray(s, vc.zero(u.Elem()))
	}
	vc.errorf("no zero value for %s", t)
	return "0"
}

func (vc *VC) strLit(s string) T {
	vc.needSort("Str")
	if c, ok := vc.strConst[s]; ok {
		return c
	}
	name := fmt.Sprintf("str!%d", len(vc.strConst))
	vc.decl(name, "Str")
	vc.assume(eq(app("str_len", name), num(int64(len(s)))))
	// distinct from every earlier literal
	var keys []string
	for k := range vc.strConst {
		keys = append(keys, k)
	}
	sort.Strings(keys)
	for _, k := range keys {
		vc.assume(not(eq(name, vc.strConst[k])))
		if k < s {
			vc.assume(app("str_lt", vc.strConst[k], name))
		} else {
			vc.assume(app("str_lt", name, vc.strConst[k]))
		}
	}
	vc.strConst[s] = name
	return name
}

// intRange returns the numeric bounds of a Go integer type
func intRange(t types.Type) (lo, hi string, ok bool) {
	b, isB := t.Underlying().(*types.Basic)
	if !isB || b.Info()&types.IsInteger == 0 {
		return "", "", false
	}
	switch b.Kind() {
	case types.Int8:
		return "(- 128)", "127", true
	case types.Int16:
		return "(- 32768)", "32767", true
	case types.Int32:
		return "(- 2147483648)", "2147483647", true
	case types.Int, types.Int64:
		return "(- 9223372036854775808)", "9223372036854775807", true
	case types.Uint8:
		return "0", "255", true
	case types.Uint16:
		return "0", "65535", true
	case types.Uint32:
		return "0", "4294967295", true
	case types.Uint, types.Uint64, types.Uintptr:
		return "0", "18446744073709551615", true
	case types.UntypedInt, types.UntypedRune:
		return "", "", false
	}
	return "", "", false
}

func intBits(t types.Type) (bits int, signed bool) {
	b := t.Underlying().(*types.Basic)
	switch b.Kind() {
	case types.Int8:
		return 8, true
	case types.Int16:
		return 16, true
	case types.Int32:
		return 32, true
	case types.Int, types.Int64:
		return 64, true
	case types.Uint8:
		return 8, false
	case types.Uint16:
		return 16, false
	case types.Uint32:
		return 32, false
	}
	return 64, false
}

// typeFacts are the facts every well-typed value of type t satisfies (ranges, slice shape,
// pointers below the allocation frontier).
func (vc *VC) typeFacts(x T, t types.Type, alloc T, depth int) T {
	if depth > 3 {
		return tTrue
	}
	if vc.mode == ValueMode {
		if s, ok := valueModeSorts[typeKey(t)]; ok {
			if typeKey(t) == repoMod+"/types.Uint" {
				return le("0", x)
			}
			_ = s
			return tTrue
		}
	}
	if _, ok := opaqueSorts[typeKey(t)]; ok {
		return tTrue
	}
	if lo, hi, ok := intRange(t); ok {
		return inRange(x, lo, hi)
	}
	switch u := t.Underlying().(type) {
	case *types.Pointer:
		if alloc == "" {
			return le("0", x)
		}
		return and(le("0", x), lt(x, alloc))
	case *types.Slice:
		if vc.sortOf(t) != "Slice" {
			return tTrue
		}
		fs := []T{le("0", app("s_off", x)), le("0", app("s_len", x)), le(app("s_len", x), app("s_cap", x)), le("0", app("s_ref", x)),
			le(app("s_cap", x), "281474976710656"),
			implies(eq(app("s_ref", x), "0"), and(eq(app("s_cap", x), "0"), eq(app("s_off", x), "0")))}
		if alloc != "" {
			fs = append(fs, lt(app("s_ref", x), alloc))
		}
		return and(fs...)
	case *types.Struct:
		s := vc.sortOf(t)
		var fs []T
		for i := 0; i < u.NumFields(); i++ {
			fs = append(fs, vc.typeFacts(app(fmt.Sprintf("%s_f%d", s, i), x), u.Field(i).Type(), alloc, depth+1))
		}
		return and(fs...)
	case *types.Interface:
		return le("0", app("i_type", x))
	case *types.Map, *types.Chan, *types.Signature:
		if alloc == "" {
			return le("0", x)
		}
		return and(le("0", x), lt(x, alloc))
	}
	return tTrue
}

// ---------------------------------------------------------------- heaps

// heapTag names the heap a value of type t lives in: its sort, except that pointer-like
// values (sort Int) get their own heaps so that well-formedness facts can be stated per heap.
func (vc *VC) heapTag(t types.Type) string {
	s := vc.sortOf(t)
	if s == "Int" {
		switch t.Underlying().(type) {
		case *types.Pointer, *types.Map, *types.Chan, *types.Signature:
			return "Ptr"
		}
	}
	return sanitize(s)
}

func (vc *VC) cellHeap(elem types.Type) string {
	key := typeKey(elem)
	if key == "math/big.Int" {
		vc.ensureHeap("BIG", "Int", nil, false)
		return "BIG"
	}
	if a, ok := elem.Underlying().(*types.Array); ok {
		return vc.arrHeap(a.Elem())
	}
	name := "Hc_" + vc.heapTag(elem)
	vc.ensureHeap(name, vc.sortOf(elem), elem, false)
	return name
}

func (vc *VC) arrHeap(elem types.Type) string {
	name := "Ha_" + vc.heapTag(elem)
	vc.ensureHeap(name, "(Array Int "+vc.sortOf(elem)+")", elem, true)
	return name
}

// ensureHeap registers heap `name` (sort Array Int elemSort); its entry value is name@0.
func (vc *VC) ensureHeap(name, elemSort string, elem types.Type, rows bool) {
	if _, ok := vc.heapSort[name]; ok {
		return
	}
	vc.heapSort[name] = "(Array Int " + elemSort + ")"
	vc.heapElem[name] = elem
	vc.heapRows[name] = rows
	vc.decl(name+"@0", vc.heapSort[name])
	vc.heapWF(name+"@0", name, "alloc@0")
}

// heapWF states that every cell of the heap constant c holds a well-typed value whose
// pointers lie below the allocation frontier `front`.
func (vc *VC) heapWF(c, heap, front string) {
	elem := vc.heapElem[heap]
	if elem == nil {
		return
	}
	if ks, ok := vc.heapMapKey[heap]; ok {
		x := "(select (select " + c + " wf_p) wf_k)"
		f := vc.typeFacts(x, elem, front, 0)
		if f != tTrue {
			vc.assume("(forall ((wf_p Int) (wf_k " + ks + ")) (! " + f + " :pattern (" + x + ")))")
		}
		return
	}
	if vc.heapRows[heap] {
		x := "(select (select " + c + " wf_p) wf_i)"
		f := vc.typeFacts(x, elem, front, 0)
		if f != tTrue {
			vc.assume("(forall ((wf_p Int) (wf_i Int)) (! " + f + " :pattern (" + x + ")))")
		}
		return
	}
	x := "(select " + c + " wf_p)"
	f := vc.typeFacts(x, elem, front, 0)
	if f != tTrue {
		vc.assume("(forall ((wf_p Int)) (! " + f + " :pattern (" + x + ")))")
	}
}

func (vc *VC) ensureGhost(name, sort string) {
	if _, ok := vc.heapSort[name]; ok {
		return
	}
	vc.heapSort[name] = sort
	vc.ghost[name] = true
	vc.decl(name+"@0", sort)
}

func (vc *VC) heapGet(st *State, name string) T {
	if v, ok := st.heaps[name]; ok {
		return v
	}
	// untouched so far on this path: entry value (or the value recorded at loop havoc)
	return name + "@0"
}

func (vc *VC) heapSet(st *State, name string, v T) {
	st.heaps[name] = v
}

func (vc *VC) locOf(p SV) *Loc {
	if p.loc != nil {
		return p.loc
	}
	pt, ok := p.typ.Underlying().(*types.Pointer)
	if !ok {
		vc.errorf("locOf: not a pointer: %s", p.typ)
		return &Loc{Heap: "Hc_Int", Ref: p.t, Root: types.Typ[types.Int]}
	}
	return &Loc{Heap: vc.cellHeap(pt.Elem()), Ref: p.t, Root: pt.Elem()}
}

func (vc *VC) loadLoc(st *State, l *Loc) T {
	h := vc.heapGet(st, l.Heap)
	v := sel(h, l.Ref)
	if l.Idx != "" {
		v = sel(v, l.Idx)
	}
	for _, pe := range l.Path {
		if pe.Field >= 0 {
			v = app(fmt.Sprintf("%s_f%d", vc.sortOf(pe.In), pe.Field), v)
		} else {
			v = sel(v, pe.Idx)
		}
	}
	return v
}

// updPath returns `cur` with the sub-value at path replaced by nv.
func (vc *VC) updPath(cur T, path []pathElem, nv T) T {
	if len(path) == 0 {
		return nv
	}
	pe := path[0]
	if pe.Field < 0 {
		return sto(cur, pe.Idx, vc.updPath(sel(cur, pe.Idx), path[1:], nv))
	}
	s := vc.sortOf(pe.In)
	st := pe.In.Underlying().(*types.Struct)
	var fs []T
	for i := 0; i < st.NumFields(); i++ {
		acc := app(fmt.Sprintf("%s_f%d", s, i), cur)
		if i == pe.Field {
			fs = append(fs, vc.updPath(acc, path[1:], nv))
		} else {
			fs = append(fs, acc)
		}
	}
	return app("mk_"+s, fs...)
}

func (vc *VC) storeLoc(st *State, l *Loc, v T) {
	h := vc.heapGet(st, l.Heap)
	if l.Idx != "" {
		row := sel(h, l.Ref)
		cur := sel(row, l.Idx)
		vc.heapSet(st, l.Heap, sto(h, l.Ref, sto(row, l.Idx, vc.updPath(cur, l.Path, v))))
		return
	}
	cur := sel(h, l.Ref)
	vc.heapSet(st, l.Heap, sto(h, l.Ref, vc.updPath(cur, l.Path, v)))
}

// name long terms to keep queries small
func (vc *VC) nameTerm(prefix string, t T, sort string) T {
	if len(t) < 160 {
		return t
	}
	c := vc.fresh(prefix, sort)
	vc.assume(eq(c, t))
	return c
}

func (vc *VC) mergeStates(edges []edgeState) (*State, T) {
	if len(edges) == 1 {
		return edges[0].st.clone(), edges[0].guard
	}
	var guards []T
	for _, e := range edges {
		guards = append(guards, e.guard)
	}
	g := or(guards...)
	out := &State{heaps: map[string]T{}}
	names := map[string]bool{}
	for _, e := range edges {
		for k := range e.st.heaps {
			names[k] = true
		}
	}
	var keys []string
	for k := range names {
		keys = append(keys, k)
	}
	sort.Strings(keys)
	for _, k := range keys {
		var vals []T
		same := true
		for _, e := range edges {
			v := vc.heapGet(e.st, k)
			vals = append(vals, v)
			if v != vals[0] {
				same = false
			}
		}
		if same {
			out.heaps[k] = vals[0]
			continue
		}
		t := vals[len(vals)-1]
		for i := len(vals) - 2; i >= 0; i-- {
			t = ite(edges[i].guard, vals[i], t)
		}
		out.heaps[k] = vc.nameTerm2("m_"+k, t, vc.heapSort[k]) // always a constant: merged heaps occur inside triggers
	}
	// alloc
	same := true
	for _, e := range edges {
		if e.st.alloc != edges[0].st.alloc {
			same = false
		}
	}
	if same {
		out.alloc = edges[0].st.alloc
	} else {
		t := edges[len(edges)-1].st.alloc
		for i := len(edges) - 2; i >= 0; i-- {
			t = ite(edges[i].guard, edges[i].st.alloc, t)
		}
		out.alloc = vc.nameTerm("m_alloc", t, "Int")
	}
	return out, g
}

type edgeState struct {
	guard T
	st    *State
	from  *ssa.BasicBlock
}

// constArray is the array whose every element is z. cvc5 only accepts literal values in
// (as const ...), so other element terms get a fresh array constant with a defining axiom.
func (vc *VC) constArray(arraySort string, z T) T {
	literal := true
	for _, tok := range strings.FieldsFunc(z, func(r rune) bool { return r == '(' || r == ')' || r == ' ' }) {
		if strings.Contains(tok, "!") {
			literal = false
		}
	}
	if literal {
		return "((as const " + arraySort + ") " + z + ")"
	}
	key := "zarr:" + arraySort + ":" + z
	if vc.zarrs == nil {
		vc.zarrs = map[string]string{}
	}
	if c, ok := vc.zarrs[key]; ok {
		return c
	}
	c := vc.fresh("zarr", arraySort)
	vc.assume("(forall ((zi Int)) (! (= (select " + c + " zi) " + z + ") :pattern ((select " + c + " zi))))")
	vc.zarrs[key] = c
	return c
}

// arrOrig remembers that a value-mode byte string is arr[:] of the byte array stored at loc (n elements).
type arrOrig struct {
	loc *Loc
	n   int64
}
