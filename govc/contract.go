package main

// Contract files: comment-only Go files (//go:build verif) whose lines start with //@.

import (
	"fmt"
	"go/ast"
	"go/parser"
	"go/token"
	"os"
	"path/filepath"
	"regexp"
	"strconv"
	"strings"
)

type Clause struct {
	Kind string // requires ensures modifies panics loopinv loopdec assume
	Text string
	Expr *Expr
	Loop int
	Exc  string // panics: exception type name ("" = any)
	Line int
	Tag  string // optional label: ensures [name] expr; [name@C13] restricts the clause to checks of that property
	OnlyProp string
	Exprs []*Expr // modifies list
}

type Contract struct {
	Pkg       string // package path
	Key       string // pkg.(Recv).Name / pkg.Name, matching funcKey
	Header    string
	Recv      string
	Params    []string
	Results   []string
	Clauses   []*Clause
	Mode      Mode
	ModeSet   bool
	MayPanic  bool
	Extern    bool // library function: contract assumed, body not verified
	Assumed   bool // in-repo function whose contract is assumed (trusted), body not verified
	Iface     bool // contract of an interface method
	Pure      bool
	File      string
	Line      int
	Props     []string
	NoInline  bool
	Lemma     bool
	Uses      []string
	ParamSorts []string
	SamePkg    string
	SameAs     string   // take clauses and parameter names from this contract
	Dead       []string // return sites declared unreachable (must be proved unreachable)
	Defines    []*Define
	PanicsDeclared bool
	PanicsKeep []string // ghost prefixes that must be unchanged at every panic site
	Keeps      []string // ghost prefixes opaque callees of this function are assumed not to touch
	ModAll     bool     // modifies everything: no frame obligation; callers havoc argument referents and all ghosts
	MayExit    bool     // reaching os.Exit / log.Fatal is accepted (start-up and configuration code)
	UnderRecover []string // regexps: calls of these callees made directly by the function must follow the defer of a recovering closure
	Scope      string   // extern/iface contract valid only for callers in this package (relative path)
	Unguarded  bool     // constructor: the object is not shared yet, guarded fields may be written without the lock
}

type GhostDecl struct {
	Name string
	Sort string
	Pkg  string
}

type Invariant struct {
	Name string
	Pkg  string
	Text string
	Expr *Expr
}

type ContractFile struct {
	Invariants []*Invariant
	Path      string
	Pkg       string
	Contracts []*Contract
	Ghosts    []GhostDecl
	Preludes  []string // names of prelude files this package's contracts need
	Guards    []GuardDecl
	LibState  []string // heaps holding library-private state (container/list, ...): never constrained, havocked by every call
}

// Define: `define F(d) := KEY => VAL for i in LO..HI else DEFAULT` - the function that maps KEY(i) to VAL(i) for
// the indices LO <= i < HI (evaluated in the pre-state) and everything else to DEFAULT. It exists when equal keys
// carry equal values; that condition is an implicit precondition (proved at call sites). The function symbol is
// fresh for every application of the contract.
type Define struct {
	Name, Param, Idx      string
	Key, Val, Lo, Hi, Def *Expr
	Line                  int
}

var defineRe = regexp.MustCompile(`^(\w+)\((\w+)\)\s*:=\s*(.+?)\s*=>\s*(.+?)\s+for\s+(\w+)\s+in\s+(.+?)\.\.(.+?)\s+else\s+(.+)$`)

// GuardDecl: `//@ guarded T.f1, T.f2 by T.m` - fields f1, f2 of struct T may only be accessed while the
// sync.Mutex field m of the same struct is held.
type GuardDecl struct {
	Pkg, Type, Mutex string
	Fields           []string
}

var closureNameRe = regexp.MustCompile(`^(.*)__([0-9]+)$`)

var kwRe = regexp.MustCompile(`^(requires|ensures|modifies|panics|may_panic|may_exit|under_recover|unguarded|scope|keeps|define|panics_keep|panics_declared|loop|mode|extern|assumed|pure|props|noinline|uses|iface|hint|trigger|dead|same_as|instance)\b`)

// parseContractFile reads //@ lines. pkgPath is the import path the file belongs to
// (can be overridden by a `//@ package <path>` line for extern contract files).
func parseContractFile(path, pkgPath string) (*ContractFile, error) {
	data, err := os.ReadFile(path)
	if err != nil {
		return nil, err
	}
	cf := &ContractFile{Path: path, Pkg: pkgPath}
	var cur *Contract
	var last *Clause
	var lastInv *Invariant
	flush := func() {
		lastInv = nil
		if cur != nil {
			cf.Contracts = append(cf.Contracts, cur)
		}
		cur = nil
		last = nil
	}
	var macros []*specMacro
	lines := strings.Split(string(data), "\n")
	for ln, raw := range lines {
		line := strings.TrimSpace(raw)
		if !strings.HasPrefix(line, "//@") {
			continue
		}
		body := strings.TrimPrefix(line, "//@")
		if i := strings.Index(body, " //"); i >= 0 { // trailing comment
			body = body[:i]
		}
		text := strings.TrimSpace(body)
		if text == "" {
			continue
		}
		if strings.HasPrefix(text, "macro ") {
			// macro NAME(p, q) := body -- textual abbreviation, file scope, expanded in every later //@ line
			m, err := parseMacro(strings.TrimSpace(strings.TrimPrefix(text, "macro ")))
			if err != nil {
				return nil, fmt.Errorf("%s:%d: %v", path, ln+1, err)
			}
			macros = append(macros, m)
			continue
		}
		if len(macros) > 0 {
			text = expandMacros(text, macros)
		}
		switch {
		case strings.HasPrefix(text, "package "):
			flush()
			cf.Pkg = strings.TrimSpace(strings.TrimPrefix(text, "package "))
			continue
		case strings.HasPrefix(text, "prelude "):
			cf.Preludes = append(cf.Preludes, strings.Fields(text)[1:]...)
			continue
		case strings.HasPrefix(text, "invariant "):
			flush()
			rest := strings.TrimSpace(strings.TrimPrefix(text, "invariant "))
			ci := strings.Index(rest, ":")
			if ci < 0 {
				return nil, fmt.Errorf("%s:%d: invariant name: expr", path, ln+1)
			}
			inv := &Invariant{Name: strings.TrimSpace(rest[:ci]), Pkg: cf.Pkg, Text: strings.TrimSpace(rest[ci+1:])}
			cf.Invariants = append(cf.Invariants, inv)
			lastInv = inv
			continue
		case strings.HasPrefix(text, "library_state "):
			flush()
			cf.LibState = append(cf.LibState, strings.Fields(text)[1:]...)
			continue
		case strings.HasPrefix(text, "guarded "):
			flush()
			rest := strings.TrimSpace(strings.TrimPrefix(text, "guarded "))
			bi := strings.Index(rest, " by ")
			if bi < 0 {
				return nil, fmt.Errorf("%s:%d: guarded T.f, ... by T.m", path, ln+1)
			}
			mu := strings.TrimSpace(rest[bi+4:])
			di := strings.Index(mu, ".")
			if di < 0 {
				return nil, fmt.Errorf("%s:%d: guarded T.f, ... by T.m", path, ln+1)
			}
			gd := GuardDecl{Pkg: cf.Pkg, Type: mu[:di], Mutex: mu[di+1:]}
			for _, f := range strings.Split(rest[:bi], ",") {
				f = strings.TrimSpace(f)
				if !strings.HasPrefix(f, gd.Type+".") {
					return nil, fmt.Errorf("%s:%d: guarded fields must belong to %s", path, ln+1, gd.Type)
				}
				gd.Fields = append(gd.Fields, strings.TrimPrefix(f, gd.Type+"."))
			}
			cf.Guards = append(cf.Guards, gd)
			continue
		case strings.HasPrefix(text, "ghost "):
			flush()
			rest := strings.TrimSpace(strings.TrimPrefix(text, "ghost "))
			sp := strings.IndexAny(rest, " \t")
			if sp < 0 {
				return nil, fmt.Errorf("%s:%d: ghost needs a sort", path, ln+1)
			}
			cf.Ghosts = append(cf.Ghosts, GhostDecl{Name: rest[:sp], Sort: strings.TrimSpace(rest[sp:]), Pkg: cf.Pkg})
			continue
		case strings.HasPrefix(text, "lemma "):
			flush()
			c := &Contract{Pkg: cf.Pkg, File: path, Line: ln + 1, Lemma: true}
			if err := parseHeader(c, "func "+strings.TrimPrefix(text, "lemma ")); err != nil {
				return nil, fmt.Errorf("%s:%d: %v", path, ln+1, err)
			}
			c.Key = "lemma." + c.Key[strings.LastIndex(c.Key, ".")+1:]
			cur = c
			continue
		case strings.HasPrefix(text, "func ") || strings.HasPrefix(text, "extern func ") || strings.HasPrefix(text, "assumed func ") || strings.HasPrefix(text, "iface func "):
			flush()
			c := &Contract{Pkg: cf.Pkg, File: path, Line: ln + 1}
			if strings.HasPrefix(text, "extern ") {
				c.Extern = true
				text = strings.TrimPrefix(text, "extern ")
			}
			if strings.HasPrefix(text, "assumed ") {
				c.Assumed = true
				text = strings.TrimPrefix(text, "assumed ")
			}
			if strings.HasPrefix(text, "iface ") {
				c.Iface = true
				c.Extern = true
				text = strings.TrimPrefix(text, "iface ")
			}
			if err := parseHeader(c, text); err != nil {
				return nil, fmt.Errorf("%s:%d: %v", path, ln+1, err)
			}
			cur = c
			continue
		}
		if cur == nil && lastInv != nil && !kwRe.MatchString(text) {
			lastInv.Text += " " + text
			continue
		}
		if cur == nil {
			return nil, fmt.Errorf("%s:%d: clause outside a function contract: %s", path, ln+1, text)
		}
		if !kwRe.MatchString(text) {
			// continuation of the previous clause
			if last == nil {
				return nil, fmt.Errorf("%s:%d: dangling continuation: %s", path, ln+1, text)
			}
			last.Text += " " + text
			continue
		}
		kw := kwRe.FindString(text)
		rest := strings.TrimSpace(text[len(kw):])
		switch kw {
		case "may_exit":
			cur.MayExit = true
			last = nil
		case "under_recover":
			// under_recover <regexp>: every direct call of a callee matching it must be preceded, on every path, by
			// the defer of a closure that calls recover() - a panic in that callee is then turned into a result
			if _, err := regexp.Compile(rest); err != nil || rest == "" {
				return nil, fmt.Errorf("%s:%d: under_recover needs a regular expression: %s", path, ln+1, text)
			}
			cur.UnderRecover = append(cur.UnderRecover, rest)
			last = nil
		case "may_panic":
			cur.MayPanic = true
			last = nil
		case "unguarded":
			cur.Unguarded = true
			last = nil
		case "pure":
			cur.Pure = true
			last = nil
		case "noinline":
			cur.NoInline = true
		case "extern":
			cur.Extern = true
		case "assumed":
			cur.Assumed = true
		case "iface":
			cur.Iface = true
		case "props":
			cur.Props = append(cur.Props, strings.Fields(rest)...)
			last = nil
		case "same_as":
			cur.SameAs = strings.TrimSpace(rest)
			last = nil
		case "dead":
			cur.Dead = append(cur.Dead, strings.Fields(rest)...)
			last = nil
		case "uses":
			cur.Uses = append(cur.Uses, strings.Fields(rest)...)
			last = nil
		case "define":
			m := defineRe.FindStringSubmatch(rest)
			if m == nil {
				return nil, fmt.Errorf("%s:%d: define F(d) := KEY => VAL for i in LO..HI else DEFAULT", path, ln+1)
			}
			d := &Define{Name: m[1], Param: m[2], Idx: m[5], Line: ln + 1}
			var err error
			for _, pe := range []struct {
				dst **Expr
				src string
			}{{&d.Key, m[3]}, {&d.Val, m[4]}, {&d.Lo, m[6]}, {&d.Hi, m[7]}, {&d.Def, m[8]}} {
				if *pe.dst, err = parseSpec(pe.src); err != nil {
					return nil, fmt.Errorf("%s:%d: define: %v in %q", path, ln+1, err, pe.src)
				}
			}
			cur.Defines = append(cur.Defines, d)
			last = nil
		case "panics_declared":
			// partial-correctness (value) mode, opt-in: every explicit panic this function can reach - its own, an
			// inlined callee's, or one a callee's contract declares - must be covered by one of its `panics when`
			// clauses (none = it does not panic). Runtime panics (nil, bounds) stay outside.
			cur.PanicsDeclared = true
			last = nil
		case "panics_keep":
			// C11: wherever this function (or a callee) can panic, the ghosts with these prefixes still have their
			// entry values - a panicking handler leaves no trace
			cur.PanicsKeep = append(cur.PanicsKeep, strings.Fields(strings.Replace(rest, ",", " ", -1))...)
			last = nil
		case "keeps":
			// opaque calls made by this function (function values, uncontracted callees) keep the ghosts with
			// these prefixes - an assumption, listed in the evidence
			cur.Keeps = append(cur.Keeps, strings.Fields(strings.Replace(rest, ",", " ", -1))...)
			last = nil
		case "scope":
			// this (extern/iface) contract applies only at call sites inside the named repository package
			cur.Scope = rest
			last = nil
		case "mode":
			cur.ModeSet = true
			if rest == "value" {
				cur.Mode = ValueMode
			} else {
				cur.Mode = HeapMode
			}
			last = nil
		case "loop":
			f := strings.Fields(rest)
			if len(f) >= 2 && f[1] == "frame" {
				// loop N frame [except H ...]: cells that exist when the loop is entered keep their content
				n, err := strconv.Atoi(f[0])
				if err != nil {
					return nil, fmt.Errorf("%s:%d: loop ordinal: %v", path, ln+1, err)
				}
				cl := &Clause{Kind: "loopframe", Loop: n, Line: ln + 1}
				for _, x := range f[2:] {
					if x != "except" {
						cl.Text += " " + x
					}
				}
				cur.Clauses = append(cur.Clauses, cl)
				last = nil
				continue
			}
			if len(f) >= 3 && f[1] == "maintains" {
				// loop N maintains inv1 inv2 ...: the named package invariants are loop invariants (expanded after loading)
				n, err := strconv.Atoi(f[0])
				if err != nil {
					return nil, fmt.Errorf("%s:%d: loop ordinal: %v", path, ln+1, err)
				}
				cur.Clauses = append(cur.Clauses, &Clause{Kind: "loopmaintains", Loop: n, Text: strings.Join(f[2:], " "), Line: ln + 1})
				last = nil
				continue
			}
			if len(f) < 3 {
				return nil, fmt.Errorf("%s:%d: loop N invariant|decreases e", path, ln+1)
			}
			n, err := strconv.Atoi(f[0])
			if err != nil {
				return nil, fmt.Errorf("%s:%d: loop ordinal: %v", path, ln+1, err)
			}
			k := "loopinv"
			if f[1] == "decreases" {
				k = "loopdec"
			} else if f[1] != "invariant" {
				return nil, fmt.Errorf("%s:%d: loop N invariant|decreases", path, ln+1)
			}
			idx := strings.Index(rest, f[1]) + len(f[1])
			last = &Clause{Kind: k, Loop: n, Text: strings.TrimSpace(rest[idx:]), Line: ln + 1}
			cur.Clauses = append(cur.Clauses, last)
		case "panics":
			// panics [ExcType] when e
			exc := ""
			kind := "panics"
			i := strings.Index(rest, "when ")
			if j := strings.Index(rest, "at_site "); j >= 0 && (i < 0 || j < i) {
				// evaluated in the state at the panic site (may mention ghosts written before it);
				// gives permission to panic, no obligation to
				kind = "panics_site"
				i = j + 3
			}
			if i < 0 {
				return nil, fmt.Errorf("%s:%d: panics [Type] when e", path, ln+1)
			}
			exc = strings.TrimSpace(strings.TrimSuffix(strings.TrimSpace(rest[:i]), "at_"))
			if kind == "panics_site" {
				exc = strings.TrimSpace(rest[:strings.Index(rest, "at_site ")])
			}
			last = &Clause{Kind: kind, Exc: exc, Text: strings.TrimSpace(rest[i+5:]), Line: ln + 1}
			cur.Clauses = append(cur.Clauses, last)
		default:
			tag := ""
			if strings.HasPrefix(rest, "[") {
				j := strings.Index(rest, "]")
				tag = rest[1:j]
				rest = strings.TrimSpace(rest[j+1:])
			}
			only := ""
			if k := strings.Index(tag, "@"); k >= 0 {
				tag, only = tag[:k], tag[k+1:]
			}
			last = &Clause{Kind: kw, Text: rest, Line: ln + 1, Tag: tag, OnlyProp: only}
			cur.Clauses = append(cur.Clauses, last)
		}
	}
	flush()
	for _, inv := range cf.Invariants {
		e, err := parseSpec(inv.Text)
		if err != nil {
			return nil, fmt.Errorf("%s: invariant %s: %v", path, inv.Name, err)
		}
		inv.Expr = e
	}
	// parse expressions
	for _, c := range cf.Contracts {
		for _, cl := range c.Clauses {
			if cl.Kind == "loopframe" {
				continue
			}
			if cl.Kind == "loopmaintains" {
				continue
			}
			if cl.Kind == "modifies" {
				if strings.TrimSpace(cl.Text) == "nothing" {
					continue
				}
				if strings.TrimSpace(cl.Text) == "everything" {
					c.ModAll = true
					continue
				}
				for _, part := range splitTop(cl.Text, ',') {
					if pt := strings.TrimSpace(part); strings.HasSuffix(pt, ".*") {
						cl.Exprs = append(cl.Exprs, &Expr{Op: "wild", Name: strings.TrimSuffix(pt, ".*")})
						continue
					}
					e, err := parseSpec(strings.TrimSpace(part))
					if err != nil {
						return nil, fmt.Errorf("%s:%d: %v in %q", path, cl.Line, err, part)
					}
					cl.Exprs = append(cl.Exprs, e)
				}
				continue
			}
			e, err := parseSpec(cl.Text)
			if err != nil {
				return nil, fmt.Errorf("%s:%d: %v in %q", path, cl.Line, err, cl.Text)
			}
			cl.Expr = e
		}
	}
	return cf, nil
}

func splitTop(s string, sep byte) []string {
	var out []string
	d := 0
	start := 0
	for i := 0; i < len(s); i++ {
		switch s[i] {
		case '(', '[':
			d++
		case ')', ']':
			d--
		default:
			if s[i] == sep && d == 0 {
				out = append(out, s[start:i])
				start = i + 1
			}
		}
	}
	out = append(out, s[start:])
	return out
}

// parseHeader parses "func (r *T) Name(a, b X) (res Y, ok bool)" with go/parser.
func parseHeader(c *Contract, text string) error {
	c.Header = text
	src := "package p\n" + text + "\n"
	fset := token.NewFileSet()
	f, err := parser.ParseFile(fset, "h.go", src, 0)
	if err != nil {
		return fmt.Errorf("bad header %q: %v", text, err)
	}
	if len(f.Decls) != 1 {
		return fmt.Errorf("bad header %q", text)
	}
	fd, ok := f.Decls[0].(*ast.FuncDecl)
	if !ok {
		return fmt.Errorf("bad header %q", text)
	}
	name := fd.Name.Name
	// a function literal: `func Outer__1(...)` stands for the first closure literal of Outer (go/ssa name Outer$1);
	// its free variables are visible to the clauses under their source names
	if m := closureNameRe.FindStringSubmatch(name); m != nil {
		name = m[1] + "$" + m[2]
	}
	key := c.Pkg + "." + name
	if fd.Recv != nil && len(fd.Recv.List) == 1 {
		r := fd.Recv.List[0]
		tn := ""
		ptr := false
		switch t := r.Type.(type) {
		case *ast.StarExpr:
			ptr = true
			if id, ok := t.X.(*ast.Ident); ok {
				tn = id.Name
			}
		case *ast.Ident:
			tn = t.Name
		}
		if tn == "" {
			return fmt.Errorf("bad receiver in %q", text)
		}
		if len(r.Names) > 0 {
			c.Recv = r.Names[0].Name
		} else {
			c.Recv = "_recv"
		}
		if ptr {
			key = "*" + c.Pkg + "." + tn + "." + name
		} else {
			key = c.Pkg + "." + tn + "." + name
		}
	}
	c.Key = strings.Replace(key, repoMod+"/", "", -1)
	n := 0
	for _, p := range fd.Type.Params.List {
		ts := ""
		if id, ok := p.Type.(*ast.Ident); ok {
			ts = id.Name
		}
		if len(p.Names) == 0 {
			c.Params = append(c.Params, fmt.Sprintf("_p%d", n))
			c.ParamSorts = append(c.ParamSorts, ts)
			n++
		}
		for _, nm := range p.Names {
			c.Params = append(c.Params, nm.Name)
			c.ParamSorts = append(c.ParamSorts, ts)
			n++
		}
	}
	if fd.Type.Results != nil {
		n = 0
		for _, p := range fd.Type.Results.List {
			if len(p.Names) == 0 {
				c.Results = append(c.Results, fmt.Sprintf("r%d", n))
				n++
			}
			for _, nm := range p.Names {
				c.Results = append(c.Results, nm.Name)
				n++
			}
		}
	}
	return nil
}

// loadContracts finds zz_contracts_verif.go files under the repo and extern contract
// files under specDir.
func loadContracts(repo, specDir string) (map[string]*Contract, []GhostDecl, []*ContractFile, error) {
	out := map[string]*Contract{}
	var ghosts []GhostDecl
	var files []*ContractFile
	add := func(cf *ContractFile) error {
		files = append(files, cf)
		for _, c := range cf.Contracts {
			k := c.Key
			if c.ModeSet && (c.Extern || c.Assumed) {
				if c.Mode == ValueMode {
					k += "@value"
				} else {
					k += "@heap"
				}
			}
			if c.Scope != "" {
				k += "#" + c.Scope
			}
			if prev, dup := out[k]; dup {
				return fmt.Errorf("duplicate contract for %s (%s:%d and %s:%d)", k, prev.File, prev.Line, c.File, c.Line)
			}
			out[k] = c
		}
		ghosts = append(ghosts, cf.Ghosts...)
		return nil
	}
	err := filepath.Walk(repo, func(p string, info os.FileInfo, err error) error {
		if err != nil {
			return nil
		}
		if info.IsDir() && (info.Name() == ".git" || info.Name() == "vendor-deps") {
			return filepath.SkipDir
		}
		if !info.IsDir() && strings.HasPrefix(info.Name(), "zz_contracts") && strings.HasSuffix(info.Name(), "_verif.go") {
			rel, _ := filepath.Rel(repo, filepath.Dir(p))
			cf, err := parseContractFile(p, repoMod+"/"+filepath.ToSlash(rel))
			if err != nil {
				return err
			}
			return add(cf)
		}
		return nil
	})
	if err != nil {
		return nil, nil, nil, err
	}
	lf, _ := filepath.Glob(filepath.Join(specDir, "lemmas", "*.txt"))
	for _, p := range lf {
		cf, err := parseContractFile(p, "")
		if err != nil {
			return nil, nil, nil, err
		}
		if err := add(cf); err != nil {
			return nil, nil, nil, err
		}
	}
	defer func() {
		for _, c := range out {
			if c.SameAs == "" {
				continue
			}
			src := out[c.SameAs]
			if src == nil {
				src = out[c.SameAs+"@value"]
			}
			if src == nil {
				fmt.Fprintf(os.Stderr, "contract %s: same_as %s not found\n", c.Key, c.SameAs)
				continue
			}
			c.Clauses, c.Params, c.Results, c.Uses = src.Clauses, src.Params, src.Results, src.Uses
			c.Defines, c.MayPanic, c.Dead = src.Defines, src.MayPanic, src.Dead
			if c.Recv != "" && src.Recv != "" {
				c.Recv = src.Recv
			}
			c.SamePkg = src.Pkg
		}
	}()
	ex, _ := filepath.Glob(filepath.Join(specDir, "extern", "*.go.txt"))
	for _, p := range ex {
		cf, err := parseContractFile(p, "")
		if err != nil {
			return nil, nil, nil, err
		}
		for _, c := range cf.Contracts {
			c.Extern = true
		}
		if err := add(cf); err != nil {
			return nil, nil, nil, err
		}
	}
	// loop N maintains inv ...: expand to loop invariants carrying the named package invariants
	invs := map[string]*Invariant{}
	for _, cf := range files {
		for _, inv := range cf.Invariants {
			invs[inv.Name] = inv
		}
	}
	for _, c := range out {
		var cls []*Clause
		for _, cl := range c.Clauses {
			if cl.Kind != "loopmaintains" {
				cls = append(cls, cl)
				continue
			}
			for _, name := range strings.Fields(cl.Text) {
				inv, ok := invs[name]
				if !ok {
					return nil, nil, nil, fmt.Errorf("%s:%d: loop %d maintains unknown invariant %s", c.File, cl.Line, cl.Loop, name)
				}
				cls = append(cls, &Clause{Kind: "loopinv", Loop: cl.Loop, Text: name, Expr: inv.Expr, Line: cl.Line})
			}
		}
		c.Clauses = cls
	}
	return out, ghosts, files, nil
}

// specMacro is a textual abbreviation usable in the contract clauses of one file.
type specMacro struct {
	Name   string
	Params []string
	Body   string
}

func parseMacro(s string) (*specMacro, error) {
	i := strings.Index(s, ":=")
	lp := strings.Index(s, "(")
	rp := strings.Index(s, ")")
	if i < 0 || lp < 0 || rp < lp || rp > i {
		return nil, fmt.Errorf("macro NAME(params) := body")
	}
	m := &specMacro{Name: strings.TrimSpace(s[:lp]), Body: strings.TrimSpace(s[i+2:])}
	for _, p := range strings.Split(s[lp+1:rp], ",") {
		if p = strings.TrimSpace(p); p != "" {
			m.Params = append(m.Params, p)
		}
	}
	return m, nil
}

func isIdentByte(c byte) bool {
	return c == '_' || c == '.' || c == '#' || (c >= '0' && c <= '9') || (c >= 'a' && c <= 'z') || (c >= 'A' && c <= 'Z')
}

// substIdent replaces whole-identifier occurrences of name in s (string literals are left alone).
func substIdent(s, name, repl string) string {
	var b strings.Builder
	inStr := false
	for i := 0; i < len(s); {
		if s[i] == '"' {
			inStr = !inStr
		}
		if !inStr && strings.HasPrefix(s[i:], name) && (i == 0 || !isIdentByte(s[i-1])) && (i+len(name) == len(s) || s[i+len(name)] == '.' || !isIdentByte(s[i+len(name)])) {
			b.WriteString(repl)
			i += len(name)
			continue
		}
		b.WriteByte(s[i])
		i++
	}
	return b.String()
}

func expandMacros(text string, macros []*specMacro) string {
	for round := 0; round < 12; round++ {
		changed := false
		for _, m := range macros {
			for from := 0; ; {
				k := strings.Index(text[from:], m.Name+"(")
				if k < 0 {
					break
				}
				k += from
				if k > 0 && isIdentByte(text[k-1]) {
					from = k + 1
					continue
				}
				// balanced argument list
				start := k + len(m.Name) + 1
				depth, end := 1, -1
				var args []string
				argStart := start
				inStr := false
				for j := start; j < len(text); j++ {
					c := text[j]
					if c == '"' {
						inStr = !inStr
					}
					if inStr {
						continue
					}
					if c == '(' || c == '[' {
						depth++
					} else if c == ')' || c == ']' {
						depth--
						if depth == 0 {
							args = append(args, strings.TrimSpace(text[argStart:j]))
							end = j
							break
						}
					} else if c == ',' && depth == 1 {
						args = append(args, strings.TrimSpace(text[argStart:j]))
						argStart = j + 1
					}
				}
				if end < 0 || len(args) != len(m.Params) && !(len(m.Params) == 0 && len(args) == 1 && args[0] == "") {
					from = k + 1
					continue
				}
				body := m.Body
				// two-step substitution so that an argument mentioning another parameter name is not rewritten
				for i, p := range m.Params {
					body = substIdent(body, p, fmt.Sprintf("\x00%d\x00", i))
				}
				for i := range m.Params {
					body = strings.Replace(body, fmt.Sprintf("\x00%d\x00", i), "("+args[i]+")", -1)
				}
				text = text[:k] + "(" + body + ")" + text[end+1:]
				from = k + 1
				changed = true
			}
		}
		if !changed {
			break
		}
	}
	return text
}
