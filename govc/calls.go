package main

// Calls: contracts, inlining, builtins, opaque callees.

import (
	"fmt"
	"go/types"
	"regexp"
	"sort"
	"strings"

	"golang.org/x/tools/go/ssa"
)

// callees assumed to have no effect on modelled memory / ghost state and not to panic
var pureCallee = regexp.MustCompile(`(\.String$|\.Error$|\.Logger$|\.EventManager$|\.GoString$|POSHooks\.|\.Codespace$|\.WithEventManager$|\.ConsensusParams$|\.PubKey$|CheckConsensusPubKey$|^encoding/hex\.|encoding/base64\.|^encoding/json\.|go-amino\.Codec\.(Must)?Marshal|rpc/client\.NewHTTP$|node\.Node\.Config$|\.Events$)|^(fmt\.|errors\.|strings\.|strconv\.|\*?types\.(New)?Err|types\.newError|\*?types\.sdkError\.|types\.Err[A-Z]|x/[a-z]+/types\.Err[A-Z]|x/[a-z]+/types\.Codespace|\*?github\.com/tendermint/tendermint/libs/log\.|\*?github\.com/tendermint/tendermint/libs/common\.|\*?github\.com/pkg/errors\.|types\.NewEvent|types\.NewAttribute|\*?types\.EventManager\.|types\.Events\.|types\.Event\.|log\.|os\.Exit|time\.Now|\*?bytes\.Buffer\.)`)

func (fr *frame) calleeKey(c *ssa.CallCommon) (string, *ssa.Function) {
	if c.IsInvoke() {
		rt := types.Unalias(c.Value.Type())
		if n, ok := rt.(*types.Named); ok {
			p := ""
			if n.Obj().Pkg() != nil {
				p = strings.Replace(n.Obj().Pkg().Path(), repoMod+"/", "", 1) + "."
			}
			return p + n.Obj().Name() + "." + c.Method.Name(), nil
		}
		return "iface." + c.Method.Name(), nil
	}
	if f := c.StaticCallee(); f != nil {
		return funcKey(f), f
	}
	return "", nil
}

func (fr *frame) doCall(c *ssa.CallCommon, args []SV, cur *State, instr *ssa.Call) SV {
	vc := fr.vc
	var rtyp types.Type
	if instr != nil {
		rtyp = instr.Type()
	} else {
		rtyp = c.Signature().Results()
	}
	if b, ok := c.Value.(*ssa.Builtin); ok && !c.IsInvoke() {
		return fr.builtin(b, c, args, cur, rtyp)
	}
	key, callee := fr.calleeKey(c)
	if fr.top && vc.con != nil && len(vc.con.UnderRecover) > 0 {
		mk := key
		if mk == "" {
			mk = "func-value" // a call through a function value (handler fields, closures passed in)
		}
		for _, re := range vc.con.UnderRecover {
			if ok, _ := regexp.MatchString(re, mk); ok {
				armed := fr.armed
				if armed == "" {
					armed = tFalse
				}
				vc.oblige("safe", fmt.Sprintf("call%d[%s].under-recover", vc.count("underrecover"), shortKey(mk)), fr.g, armed)
				break
			}
		}
	}
	if callee == nil && !c.IsInvoke() {
		// call through a package-level alias variable (var X = pkg.F)
		if u, ok := c.Value.(*ssa.UnOp); ok {
			if g, ok := u.X.(*ssa.Global); ok {
				if f := vc.eng.funcAlias[g]; f != nil {
					callee, key = f, funcKey(f)
					vc.assumes["package-level function alias never reassigned: "+g.Name()] = true
				}
			}
		}
	}
	// devirtualise: the receiver was boxed from a known concrete type in this very function
	if c.IsInvoke() && len(args) > 0 && args[0].dyn != nil && args[0].dyn.typ != nil {
		if m := vc.eng.prog.LookupMethod(args[0].dyn.typ, c.Method.Pkg(), c.Method.Name()); m != nil && m.Synthetic == "" {
			fr.safe("nilrecv", not(eq(app("i_type", args[0].t), "0")))
			callee = m
			key = funcKey(m)
			args = append([]SV{*args[0].dyn}, args[1:]...)
			if con := vc.contractFor(key); con != nil {
				return fr.applyContract(con, key, args, cur, rtyp)
			}
			inRepo := m.Pkg != nil && strings.HasPrefix(m.Pkg.Pkg.Path(), repoMod)
			if inRepo && len(m.Blocks) > 0 && !hasLoops(m) && fr.depth < maxInlineDepth && !vc.onStack(m) {
				return fr.inline(m, args, nil, cur, rtyp)
			}
			return fr.opaque(key, c, args, cur, rtyp, false)
		}
	}
	// devirtualise through the synthetic pointer-receiver wrapper of a value-receiver method: the receiver was
	// boxed from *T in this function and T declares the method - the wrapper loads *p and calls T's method
	if c.IsInvoke() && len(args) > 0 && args[0].dyn != nil && args[0].dyn.typ != nil {
		if pt, ok := args[0].dyn.typ.Underlying().(*types.Pointer); ok {
			if m := vc.eng.prog.LookupMethod(pt.Elem(), c.Method.Pkg(), c.Method.Name()); m != nil && m.Synthetic == "" {
				fr.safe("nilrecv", not(eq(app("i_type", args[0].t), "0")))
				p := *args[0].dyn
				fr.nonNil(p)
				rv := SV{t: vc.nameTerm("ld", vc.loadLoc(cur, vc.locOf(p)), vc.sortOf(pt.Elem())), typ: pt.Elem()}
				callee = m
				key = funcKey(m)
				args = append([]SV{rv}, args[1:]...)
				if con := vc.contractFor(key); con != nil {
					return fr.applyContract(con, key, args, cur, rtyp)
				}
				inRepo := m.Pkg != nil && strings.HasPrefix(m.Pkg.Pkg.Path(), repoMod)
				if inRepo && len(m.Blocks) > 0 && !hasLoops(m) && fr.depth < maxInlineDepth && !vc.onStack(m) {
					return fr.inline(m, args, nil, cur, rtyp)
				}
				return fr.opaque(key, c, args, cur, rtyp, false)
			}
		}
	}
	// a closure literal called directly (go/defer of func() {...}): inline with its captured variables
	if mc, ok := c.Value.(*ssa.MakeClosure); ok && !c.IsInvoke() {
		fv := fr.val(mc)
		if fv.fn != nil && len(fv.fn.Blocks) > 0 && !hasLoops(fv.fn) && fr.depth < maxInlineDepth {
			return fr.inline(fv.fn, args, fv.bnd, cur, rtyp)
		}
		return fr.opaque("func-value (called in "+funcKey(fr.fn)+")", c, args, cur, rtyp, false)
	}
	// closures / function values
	if callee == nil && !c.IsInvoke() {
		fv := fr.val(c.Value)
		if fv.fn != nil && len(fv.fn.Blocks) > 0 && !hasLoops(fv.fn) && fr.depth < maxInlineDepth {
			return fr.inline(fv.fn, args, fv.bnd, cur, rtyp)
		}
		return fr.opaque("func-value (called in "+funcKey(fr.fn)+")", c, args, cur, rtyp, false)
	}
	if con := vc.contractFor(key); con != nil {
		isSelf := callee != nil && callee == vc.fn && fr.top
		_ = isSelf
		return fr.applyContract(con, key, args, cur, rtyp)
	}
	if callee != nil {
		if mk, ok := vc.eng.nativeExterns[key]; ok {
			return mk(fr, args, cur, rtyp)
		}
		inRepo := callee.Pkg != nil && strings.HasPrefix(callee.Pkg.Pkg.Path(), repoMod)
		if pureCallee.MatchString(key) {
			return fr.opaque(key, c, args, cur, rtyp, true)
		}
		if inRepo && len(callee.Blocks) > 0 && !hasLoops(callee) && fr.depth < maxInlineDepth && !vc.onStack(callee) {
			return fr.inline(callee, args, nil, cur, rtyp)
		}
		return fr.opaque(key, c, args, cur, rtyp, false)
	}
	if pureCallee.MatchString(key) {
		return fr.opaque(key, c, args, cur, rtyp, true)
	}
	return fr.opaque(key, c, args, cur, rtyp, false)
}

func (vc *VC) onStack(f *ssa.Function) bool {
	for _, s := range vc.stack {
		if s == f {
			return true
		}
	}
	return false
}

func tupleOrSingle(rtyp types.Type, vals []SV) SV {
	if tup, ok := rtyp.(*types.Tuple); ok {
		if tup.Len() == 1 && len(vals) == 1 {
			return vals[0]
		}
		if tup.Len() == 0 {
			return SV{t: "0", typ: rtyp}
		}
		return SV{typ: rtyp, tup: vals}
	}
	if len(vals) == 1 {
		return vals[0]
	}
	return SV{t: "0", typ: rtyp}
}

func resultTypes(rtyp types.Type) []types.Type {
	if tup, ok := rtyp.(*types.Tuple); ok {
		var out []types.Type
		for i := 0; i < tup.Len(); i++ {
			out = append(out, tup.At(i).Type())
		}
		return out
	}
	return []types.Type{rtyp}
}

func (fr *frame) inline(callee *ssa.Function, args []SV, bnd []SV, cur *State, rtyp types.Type) SV {
	vc := fr.vc
	sub := vc.newFrame(callee, fr.depth+1, false)
	for i, fv := range callee.FreeVars {
		if i < len(bnd) {
			sub.env[fv] = bnd[i]
		}
	}
	vc.stack = append(vc.stack, callee)
	sub.execBody(args, cur.clone(), fr.g)
	vc.stack = vc.stack[:len(vc.stack)-1]
	if len(sub.rets) == 0 {
		// callee never returns normally (always panics)
		fr.g = tFalse
		return fr.zeroResult(rtyp)
	}
	var edges []edgeState
	for _, r := range sub.rets {
		edges = append(edges, edgeState{guard: r.guard, st: r.st})
	}
	st, g := vc.mergeStates(edges)
	*cur = *st
	if len(edges) > 1 || g != fr.g {
		gc := vc.fresh("g", "Bool")
		vc.assume(eq(gc, g))
		fr.g = gc
	}
	rts := resultTypes(rtyp)
	if tup, ok := rtyp.(*types.Tuple); ok && tup.Len() == 0 {
		return SV{t: "0", typ: rtyp}
	}
	var vals []SV
	for i, rt := range rts {
		var res SV
		allSame := true
		for _, r := range sub.rets {
			if i >= len(r.vals) {
				vc.errorf("inline %s: missing result", funcKey(callee))
				return fr.zeroResult(rtyp)
			}
			if r.vals[i].t != sub.rets[0].vals[i].t {
				allSame = false
			}
		}
		if allSame {
			res = sub.rets[0].vals[i]
			if res.typ == nil || vc.sortOf(res.typ) != vc.sortOf(rt) {
				res = SV{t: vc.conv(res, rt), typ: rt}
			}
		} else {
			last := sub.rets[len(sub.rets)-1]
			t := vc.conv(last.vals[i], rt)
			for j := len(sub.rets) - 2; j >= 0; j-- {
				t = ite(sub.rets[j].guard, vc.conv(sub.rets[j].vals[i], rt), t)
			}
			res = SV{t: vc.nameTerm("ret", t, vc.sortOf(rt)), typ: rt}
			var cands []SV
			for _, r := range sub.rets {
				cands = append(cands, r.vals[i])
			}
			res.dyn = vc.mergeDyn(res, cands)
		}
		vals = append(vals, res)
	}
	return tupleOrSingle(rtyp, vals)
}

func (fr *frame) zeroResult(rtyp types.Type) SV {
	vc := fr.vc
	rts := resultTypes(rtyp)
	if tup, ok := rtyp.(*types.Tuple); ok && tup.Len() == 0 {
		return SV{t: "0", typ: rtyp}
	}
	var vals []SV
	for _, rt := range rts {
		vals = append(vals, SV{t: vc.zero(rt), typ: rt})
	}
	return tupleOrSingle(rtyp, vals)
}

// opaque models a callee about which nothing is known.
func (fr *frame) opaque(key string, c *ssa.CallCommon, args []SV, cur *State, rtyp types.Type, pure bool) SV {
	vc := fr.vc
	if pure {
		vc.assumes["effect-free (no panic, no modelled state touched): "+key] = true
	} else {
		vc.assumes["opaque callee (assumed not to panic; direct referents of its arguments and all ghost state havocked): "+key] = true
		for _, a := range args {
			fr.havocReferent(a, cur)
		}
		var names []string
		for k := range vc.ghost {
			names = append(names, k)
		}
		sort.Strings(names)
		external := callStaticExternal(c)
		if external {
			vc.assumes["library callee does not call back into the repository (ghost state kept): "+key] = true
		}
		if !vc.eng.ghostSafe(key) && !external {
			for _, k := range names {
				if fr.keptGhost(k) {
					vc.assumes["opaque callees of this function keep ghost "+k+" (contract clause `keeps`)"] = true
					continue
				}
				cur.heaps[k] = vc.fresh("hv_"+k, vc.heapSort[k])
			}
		}
	}
	na := vc.fresh("alloc", "Int")
	vc.assume(le(cur.alloc, na))
	cur.alloc = na
	fr.flushWF(na)
	if tup, ok := rtyp.(*types.Tuple); ok && tup.Len() == 0 {
		return SV{t: "0", typ: rtyp}
	}
	var vals []SV
	for _, rt := range resultTypes(rtyp) {
		r := vc.fresh("res", vc.sortOf(rt))
		vc.assume(vc.typeFacts(r, rt, na, 0))
		if errCtor.MatchString(key) && vc.sortOf(rt) == "Iface" {
			vc.assume(not(eq(app("i_type", r), "0"))) // error constructors return non-nil errors
			vc.assumes["error constructors return a non-nil error: "+key] = true
		}
		vals = append(vals, SV{t: r, typ: rt})
	}
	return tupleOrSingle(rtyp, vals)
}

// keptGhost: the contract of the function under verification says its opaque callees do not touch this ghost.
func (fr *frame) keptGhost(g string) bool {
	con := fr.vc.con
	if con == nil {
		return false
	}
	for _, p := range con.Keeps {
		if p == "*" || strings.HasPrefix(g, ghostName(p)) {
			return true
		}
	}
	return false
}

var errCtor = regexp.MustCompile(`(^|[./])(Err[A-Z]\w*|NewError\w*|newError\w*|AppendMsgToErr)$`)

func (fr *frame) havocReferent(a SV, cur *State) {
	vc := fr.vc
	if a.typ == nil {
		return
	}
	switch u := a.typ.Underlying().(type) {
	case *types.Pointer:
		if a.loc != nil {
			l := a.loc
			vc.storeLoc(cur, l, vc.fresh("hv", vc.sortOf(derefType(a.typ))))
			return
		}
		l := vc.locOf(a)
		c := vc.fresh("hv", vc.sortOf(u.Elem()))
		vc.storeLoc(cur, l, c)
		if l.Idx == "" && len(l.Path) == 0 {
			fr.pendingCell = append(fr.pendingCell, [2]string{c, l.Heap})
		}
	case *types.Slice:
		if vc.sortOf(a.typ) != "Slice" {
			return
		}
		h := vc.arrHeap(u.Elem())
		c := vc.fresh("hv", "(Array Int "+vc.sortOf(u.Elem())+")")
		vc.heapSet(cur, h, sto(vc.heapGet(cur, h), app("s_ref", a.t), c))
		fr.pendingCell = append(fr.pendingCell, [2]string{c, h})
	}
}

// ---------------------------------------------------------------- contracts at call sites

func (vc *VC) bindContract(con *Contract, args []SV, key string) map[string]SV {
	vars := map[string]SV{}
	names := con.Params
	if con.Recv != "" {
		names = append([]string{con.Recv}, con.Params...)
	}
	if len(names) != len(args) {
		vc.errorf("contract %s: header has %d parameters, call has %d", key, len(names), len(args))
	}
	for i, n := range names {
		if i < len(args) {
			vars[n] = args[i]
		}
	}
	return vars
}

func (vc *VC) pkgOf(con *Contract) *types.Package {
	if con.SamePkg != "" {
		return vc.eng.typesPkg[con.SamePkg]
	}
	return vc.eng.typesPkg[con.Pkg]
}

func (fr *frame) applyContract(con *Contract, key string, args []SV, cur *State, rtyp types.Type) SV {
	vc := fr.vc
	vc.used[key] = true
	if con.Extern || con.Assumed {
		vc.assumes["assumed contract: "+key] = true
	}
	n := vc.count("call")
	tag := fmt.Sprintf("call%d[%s]", n, shortKey(key))
	vc.appSeq++
	saveApp := vc.curApp
	vc.curApp = vc.appSeq
	defer func() { vc.curApp = saveApp }()
	pre := cur.clone()
	env := &SpecEnv{vc: vc, vars: vc.bindContract(con, args, key), cur: pre, old: pre, pkg: vc.pkgOf(con), mode: vc.mode, con: con, app: vc.curApp}
	// implicit: pointer receiver non-nil
	if con.Recv != "" && len(args) > 0 && args[0].typ != nil {
		if _, ok := args[0].typ.Underlying().(*types.Pointer); ok && args[0].loc == nil {
			fr.nonNil(args[0])
		}
	}
	if len(con.Defines) > 0 {
		axs, wds := vc.instantiateDefines(con, env)
		for di, wd := range wds {
			vc.oblige("pre", fmt.Sprintf("%s.define.%s", tag, con.Defines[di].Name), fr.g, wd)
		}
		for _, ax := range axs {
			vc.assume(ax)
		}
	}
	i := 0
	for _, cl := range con.Clauses {
		if cl.Kind == "requires" {
			i++
			o := vc.oblige("pre", fmt.Sprintf("%s.pre%d", tag, i), fr.g, vc.evalGoal(cl.Expr, env))
			if fr.top {
				cle := cl.Expr
				vc.knownSibling(o, fmt.Sprintf("%s.pre%d", tag, i), fr.g, func() T { return vc.evalGoal(cle, env) })
			}
		}
	}
	for _, inv := range vc.invariantsOf(con) {
		ienv := *env
		ienv.pkg = vc.eng.typesPkg[inv.Pkg]
		vc.oblige("pre", fmt.Sprintf("%s.inv.%s", tag, inv.Name), fr.g, vc.evalGoal(inv.Expr, &ienv))
	}
	// declared panics
	var noPanic []T
	for _, cl := range con.Clauses {
		if cl.Kind == "panics" {
			phi := vc.evalBool(cl.Expr, env)
			pv := SV{t: "0", srt: "exc:" + cl.Exc}
			vc.panics = append(vc.panics, panicSite{guard: and(fr.g, phi), val: pv, st: pre, what: "callee " + key + " panics " + cl.Exc, nf: len(vc.facts)})
			noPanic = append(noPanic, not(phi))
		}
	}
	if vc.lenient() && vc.con != nil && (vc.con.PanicsDeclared || len(vc.con.PanicsKeep) > 0) && !con.Extern && !con.Assumed && !con.PanicsDeclared && !con.Lemma && pathMode(con.Pkg) != HeapMode {
		vc.assumes["callee assumed not to panic explicitly (its contract is not yet audited with panics_declared): "+key] = true
	}
	if con.MayPanic && (!vc.lenient() || (vc.con != nil && (len(vc.con.PanicsKeep) > 0 || vc.con.PanicsDeclared))) {
		vc.panics = append(vc.panics, panicSite{guard: fr.g, val: SV{t: "0", srt: "exc:"}, st: pre, what: "callee " + key + " may panic", nf: len(vc.facts)})
	}
	if len(noPanic) > 0 {
		fr.strengthen(and(noPanic...))
	}
	// havoc modifies
	if con.ModAll {
		for _, a := range args {
			fr.havocReferent(a, cur)
		}
		var names []string
		for k := range vc.ghost {
			names = append(names, k)
		}
		sort.Strings(names)
		for _, k := range names {
			// a callee under contract that `modifies everything` may change every ghost: what it leaves alone must be
			// said by its ensures (the caller's `keeps` speaks about OPAQUE callees only)
			cur.heaps[k] = vc.fresh("hv_"+k, vc.heapSort[k])
		}
	}
	for _, cl := range con.Clauses {
		if cl.Kind != "modifies" {
			continue
		}
		for _, me := range cl.Exprs {
			fr.havocTarget(me, env, cur)
		}
	}
	// library state (container/list internals) is havocked by every call that could reach the library: every callee of
	// the package itself and every callee without a footprint; an extern of another package (bytes, sort, tm-db key
	// helpers ...) cannot touch it
	libReach := !(con.Extern && !strings.HasPrefix(con.Pkg, "container/"))
	if libReach && vc.fn != nil && vc.fn.Pkg != nil {
		var ls []string
		for h := range vc.eng.libState[vc.fn.Pkg.Pkg.Path()] {
			if _, ok := vc.heapSort[h]; ok {
				ls = append(ls, h)
			}
		}
		sort.Strings(ls)
		for _, h := range ls {
			fr.havocOne(target{heap: h, whole: true, field: -1}, cur)
		}
	}
	na := vc.fresh("alloc", "Int")
	vc.assume(le(cur.alloc, na))
	cur.alloc = na
	fr.flushWF(na)
	// results
	post := &SpecEnv{vc: vc, vars: map[string]SV{}, cur: cur, old: pre, pkg: env.pkg, mode: vc.mode, con: con, app: vc.curApp}
	for k, v := range env.vars {
		post.vars[k] = v
	}
	var vals []SV
	rts := resultTypes(rtyp)
	if tup, ok := rtyp.(*types.Tuple); ok && tup.Len() == 0 {
		rts = nil
	}
	for j, rt := range rts {
		r := vc.fresh("res", vc.sortOf(rt))
		vc.assume(vc.typeFacts(r, rt, na, 0))
		sv := SV{t: r, typ: rt}
		vals = append(vals, sv)
		if j < len(con.Results) {
			post.vars[con.Results[j]] = sv
		}
		post.vars[fmt.Sprintf("r%d", j)] = sv
	}
	for _, cl := range con.Clauses {
		if cl.Kind == "ensures" {
			vc.assume(implies(fr.g, vc.evalHyp(cl.Expr, post, fr.g)))
		}
	}
	for _, inv := range vc.invariantsOf(con) {
		ienv := *post
		ienv.pkg = vc.eng.typesPkg[inv.Pkg]
		vc.assume(implies(fr.g, vc.evalHyp(inv.Expr, &ienv, fr.g)))
	}
	fr.nameHeaps(cur)
	if rts == nil {
		return SV{t: "0", typ: rtyp}
	}
	return tupleOrSingle(rtyp, vals)
}

func shortKey(k string) string {
	if i := strings.LastIndex(k, "/"); i >= 0 {
		return k[i+1:]
	}
	return k
}

func arrayElemSort(srt string) string {
	sx, err := parseSx(srt)
	if err == nil && len(sx) == 1 && sx[0].IsList && len(sx[0].List) == 3 {
		return sx[0].List[2].String()
	}
	return "Int"
}

func arrayKeySort(srt string) string {
	sx, err := parseSx(srt)
	if err == nil && len(sx) == 1 && sx[0].IsList && len(sx[0].List) == 3 {
		return sx[0].List[1].String()
	}
	return "Int"
}

// valRef: the reference of a wrapper struct around *big.Int (Int{i}) or of a pointer
func (vc *VC) valRef(x SV, env *SpecEnv) T {
	if x.typ == nil {
		return x.t
	}
	if st, ok := x.typ.Underlying().(*types.Struct); ok && st.NumFields() == 1 {
		return vc.fieldSpec(x, st.Field(0).Name(), env).t
	}
	return x.t
}

// ---------------------------------------------------------------- builtins

func (fr *frame) builtin(b *ssa.Builtin, c *ssa.CallCommon, args []SV, cur *State, rtyp types.Type) SV {
	vc := fr.vc
	switch b.Name() {
	case "len":
		x := args[0]
		switch vc.sortOf(x.typ) {
		case "Slice":
			return SV{t: app("s_len", x.t), typ: rtyp}
		case "Str":
			return SV{t: app("str_len", x.t), typ: rtyp}
		case "Bytes":
			return SV{t: app("bytes_len", x.t), typ: rtyp}
		case "Coins":
			vc.declRaw("fn:coins_len", "(declare-fun coins_len (Coins) Int)\n(assert (forall ((c Coins)) (! (>= (coins_len c) 0) :pattern ((coins_len c)))))\n(assert (= (coins_len coins_nil) 0))")
			return SV{t: app("coins_len", x.t), typ: rtyp}
		}
		if a, ok := x.typ.Underlying().(*types.Array); ok {
			return SV{t: num(a.Len()), typ: rtyp}
		}
		if _, ok := x.typ.Underlying().(*types.Map); ok {
			return fr.mapLen(x, cur, rtyp)
		}
	case "cap":
		x := args[0]
		if vc.sortOf(x.typ) == "Slice" {
			return SV{t: app("s_cap", x.t), typ: rtyp}
		}
	case "append":
		return fr.appendOp(args, cur, rtyp)
	case "copy":
		return fr.copyOp(args, cur, rtyp)
	case "delete":
		return fr.mapDelete(args, cur)
	case "recover":
		// deferred functions are executed on the normally returning paths only (a panic ends a path), where
		// recover() returns nil
		fr.vc.assumes["recover() yields nil: deferred functions are followed on non-panicking paths only"] = true
		return SV{t: "(mk_iface 0 0)", typ: rtyp}
	case "print", "println":
		return SV{t: "0", typ: rtyp}
	}
	vc.errorf("unsupported builtin %s in %s", b.Name(), funcKey(fr.fn))
	return SV{t: "0", typ: rtyp}
}

func (fr *frame) appendOp(args []SV, cur *State, rtyp types.Type) SV {
	vc := fr.vc
	s, t := args[0], args[1]
	st, ok := rtyp.Underlying().(*types.Slice)
	if !ok || vc.sortOf(rtyp) != "Slice" {
		if vc.sortOf(rtyp) == "Bytes" {
			vc.declRaw("fn:bytes_cat", "(declare-fun bytes_cat (Bytes Bytes) Bytes)")
			r := app("bytes_cat", s.t, t.t)
			vc.assume(eq(app("bytes_len", r), add(app("bytes_len", s.t), app("bytes_len", t.t))))
			return SV{t: r, typ: rtyp}
		}
		vc.errorf("append on %s", rtyp)
		return SV{t: "0", typ: rtyp}
	}
	if isStringType(t.typ) {
		vc.errorf("append(bytes, string...) not supported in %s", funcKey(fr.fn))
		return SV{t: "0", typ: rtyp}
	}
	es := vc.sortOf(st.Elem())
	hn := vc.arrHeap(st.Elem())
	h := vc.heapGet(cur, hn)
	sl, tl := sliceAcc("s_len", s.t), sliceAcc("s_len", t.t)
	n := vc.nameTerm2("appn", add(sl, tl), "Int")
	fits := le(n, app("s_cap", s.t))
	if len(vc.splits) < 3 {
		vc.splits = append(vc.splits, fits)
	}
	srow := sel(h, app("s_ref", s.t))
	trow := sel(h, app("s_ref", t.t))
	newRef := cur.alloc
	cur.alloc = vc.bump(cur.alloc)
	newCap := vc.fresh("appcap", "Int")
	vc.assume(and(le(n, newCap), le(newCap, "281474976710656")))
	fr.safe("appendlen", le(n, "281474976710656"))
	// in-place row and fresh row
	var inplace, freshRow T
	if k, isNum := isNumeral(tl); isNum && k.IsInt64() && k.Int64() <= 8 {
		inplace = srow
		freshRow = vc.fresh("approw", "(Array Int "+es+")")
		q := "(forall ((i Int)) (! (=> (and (<= 0 i) (< i " + sl + ")) (= (select " + freshRow + " i) (select " + srow + " (+ " + app("s_off", s.t) + " i)))) :pattern ((select " + freshRow + " i))))"
		vc.assume(q)
		// the same fact triggered from the source row (absolute position x): lets an element known in the old
		// slice be found in the reallocated one
		soffT := app("s_off", s.t)
		vc.assume("(forall ((x Int)) (! (=> (and (<= " + soffT + " x) (< x (+ " + soffT + " " + sl + "))) (= (select " + freshRow + " (- x " + soffT + ")) (select " + srow + " x))) :pattern ((select " + srow + " x))))")
		fr2 := freshRow
		for j := int64(0); j < k.Int64(); j++ {
			e := sel(trow, add(app("s_off", t.t), num(j)))
			inplace = sto(inplace, add(add(app("s_off", s.t), sl), num(j)), e)
			fr2 = sto(fr2, add(sl, num(j)), e)
		}
		freshRow = fr2
	} else {
		ip := vc.fresh("approw", "(Array Int "+es+")")
		base := add(app("s_off", s.t), sl)
		vc.assume("(forall ((i Int)) (! (= (select " + ip + " i) (ite (and (<= " + base + " i) (< i (+ " + base + " " + tl + "))) (select " + trow + " (+ " + app("s_off", t.t) + " (- i " + base + "))) (select " + srow + " i))) :pattern ((select " + ip + " i))))")
		inplace = ip
		{
			toffT := app("s_off", t.t)
			vc.assume("(forall ((x Int)) (! (=> (and (<= " + toffT + " x) (< x (+ " + toffT + " " + tl + "))) (= (select " + ip + " (+ " + base + " (- x " + toffT + "))) (select " + trow + " x))) :pattern ((select " + trow + " x))))")
			vc.assume("(forall ((x Int)) (! (=> (not (and (<= " + base + " x) (< x (+ " + base + " " + tl + ")))) (= (select " + ip + " x) (select " + srow + " x))) :pattern ((select " + srow + " x))))")
		}
		nr := vc.fresh("approw", "(Array Int "+es+")")
		vc.assume("(forall ((i Int)) (! (=> (and (<= 0 i) (< i " + n + ")) (= (select " + nr + " i) (ite (< i " + sl + ") (select " + srow + " (+ " + app("s_off", s.t) + " i)) (select " + trow + " (+ " + app("s_off", t.t) + " (- i " + sl + ")))))) :pattern ((select " + nr + " i))))")
		soffT, toffT := app("s_off", s.t), app("s_off", t.t)
		vc.assume("(forall ((x Int)) (! (=> (and (<= " + soffT + " x) (< x (+ " + soffT + " " + sl + "))) (= (select " + nr + " (- x " + soffT + ")) (select " + srow + " x))) :pattern ((select " + srow + " x))))")
		vc.assume("(forall ((x Int)) (! (=> (and (<= " + toffT + " x) (< x (+ " + toffT + " " + tl + "))) (= (select " + nr + " (+ " + sl + " (- x " + toffT + "))) (select " + trow + " x))) :pattern ((select " + trow + " x))))")
		freshRow = nr
	}
	newHeap := ite(fits, sto(h, app("s_ref", s.t), inplace), sto(h, newRef, freshRow))
	// append(nil/empty, nothing) keeps s; Go returns s unchanged when t is empty
	res := ite(fits, app("mk_slice", app("s_ref", s.t), app("s_off", s.t), n, app("s_cap", s.t)), app("mk_slice", newRef, "0", n, newCap))
	// a nil slice with cap 0 and n == 0 stays nil: fits holds (0 <= 0), ref stays 0 - consistent.
	hname := vc.nameTerm2("h_"+hn, newHeap, vc.heapSort[hn])
	vc.heapSet(cur, hn, hname)
	// ground row equalities: the e-graph then matches element triggers of the result against the row constants
	vc.assume(implies(fits, eq(sel(hname, app("s_ref", s.t)), inplace)))
	vc.assume(implies(not(fits), eq(sel(hname, newRef), freshRow)))
	return SV{t: vc.nameTerm2("app", res, "Slice"), typ: rtyp}
}

func (fr *frame) copyOp(args []SV, cur *State, rtyp types.Type) SV {
	vc := fr.vc
	d, s := args[0], args[1]
	if o, ok := vc.arrOrigin[d.t]; ok && vc.sortOf(s.typ) == "Bytes" {
		// value mode, copy(arr[:], src): the whole array is overwritten when len(src) >= len(arr); otherwise the
		// new content is not tracked. A full overwrite from a string of exactly len(arr) bytes yields akey(src).
		vc.usePrelude("akey")
		nr := vc.fresh("cparr", "(Array Int Int)")
		vc.assume(implies(eq(app("bytes_len", s.t), num(o.n)), eq(nr, app("akey", s.t))))
		vc.storeLoc(cur, o.loc, nr)
		n := vc.nameTerm2("cpn", ite(le(num(o.n), app("bytes_len", s.t)), num(o.n), app("bytes_len", s.t)), "Int")
		return SV{t: n, typ: rtyp}
	}
	dt, ok := d.typ.Underlying().(*types.Slice)
	if !ok || vc.sortOf(d.typ) != "Slice" || vc.sortOf(s.typ) != "Slice" {
		vc.errorf("copy on %s, %s", d.typ, s.typ)
		return SV{t: "0", typ: rtyp}
	}
	es := vc.sortOf(dt.Elem())
	hn := vc.arrHeap(dt.Elem())
	h := vc.heapGet(cur, hn)
	n := vc.nameTerm2("cpn", ite(le(app("s_len", d.t), app("s_len", s.t)), app("s_len", d.t), app("s_len", s.t)), "Int")
	drow := sel(h, app("s_ref", d.t))
	srow := sel(h, app("s_ref", s.t))
	nr := vc.fresh("cprow", "(Array Int "+es+")")
	doff, soff := app("s_off", d.t), app("s_off", s.t)
	vc.assume("(forall ((i Int)) (! (= (select " + nr + " i) (ite (and (<= " + doff + " i) (< i (+ " + doff + " " + n + "))) (select " + srow + " (+ " + soff + " (- i " + doff + "))) (select " + drow + " i))) :pattern ((select " + nr + " i))))")
	vc.heapSet(cur, hn, vc.nameTerm2("h_"+hn, ite(lt("0", n), sto(h, app("s_ref", d.t), nr), h), vc.heapSort[hn]))
	return SV{t: n, typ: rtyp}
}

// sliceAcc simplifies an accessor applied to a literal (mk_slice ref off len cap).
func sliceAcc(acc string, t T) T {
	if strings.HasPrefix(t, "(mk_slice ") {
		if sx, err := parseSx(t); err == nil && len(sx) == 1 && len(sx[0].List) == 5 {
			idx := map[string]int{"s_ref": 1, "s_off": 2, "s_len": 3, "s_cap": 4}[acc]
			return sx[0].List[idx].String()
		}
	}
	return app(acc, t)
}

// contractFor finds the contract of a callee: a mode-specific assumed contract wins.
func (vc *VC) contractFor(key string) *Contract {
	m := "@heap"
	if vc.mode == ValueMode {
		m = "@value"
	}
	if vc.fn != nil && vc.fn.Pkg != nil {
		sc := "#" + strings.TrimPrefix(vc.fn.Pkg.Pkg.Path(), repoMod+"/")
		if c := vc.eng.contracts[key+m+sc]; c != nil {
			return c
		}
		if c := vc.eng.contracts[key+sc]; c != nil {
			return c
		}
	}
	if c := vc.eng.contracts[key+m]; c != nil {
		return c
	}
	c := vc.eng.contracts[key]
	if c != nil && c.ModeSet && (c.Extern || c.Assumed) && c.Mode != vc.mode {
		return nil
	}
	return c
}

// mergeDyn: a merged interface value keeps its known dynamic type when every merged candidate is
// either the nil interface or boxed from that same concrete type.
func (vc *VC) mergeDyn(merged SV, cands []SV) *SV {
	var dt types.Type
	for _, c := range cands {
		if c.dyn == nil {
			if c.t == "(mk_iface 0 0)" {
				continue
			}
			return nil
		}
		if dt == nil {
			dt = c.dyn.typ
		} else if !types.Identical(dt, c.dyn.typ) {
			return nil
		}
	}
	if dt == nil {
		return nil
	}
	return &SV{t: vc.unbox(merged.t, dt), typ: dt}
}

// callStaticExternal: a statically resolved callee that lives outside the repository module.
func callStaticExternal(c *ssa.CallCommon) bool {
	if c == nil {
		return false
	}
	if c.IsInvoke() {
		// a method of an interface type declared outside the repository
		if n, ok := types.Unalias(c.Value.Type()).(*types.Named); ok && n.Obj().Pkg() != nil {
			return !strings.HasPrefix(n.Obj().Pkg().Path(), repoMod)
		}
		return false
	}
	f := c.StaticCallee()
	if f == nil || f.Pkg == nil {
		return false
	}
	return !strings.HasPrefix(f.Pkg.Pkg.Path(), repoMod)
}
