package main

import (
	"encoding/json"
	"flag"
	"fmt"
	"os"
	"path/filepath"
	"regexp"
	"sort"
	"strings"
	"time"
)

func main() {
	if len(os.Args) < 2 {
		fmt.Fprintln(os.Stderr, "usage: govc check|dump ...")
		os.Exit(2)
	}
	switch os.Args[1] {
	case "check":
		os.Exit(cmdCheck(os.Args[2:]))
	case "replay":
		os.Exit(cmdReplay(os.Args[2:]))
	case "sweep":
		os.Exit(cmdSweep(os.Args[2:]))
	default:
		fmt.Fprintln(os.Stderr, "unknown command")
		os.Exit(2)
	}
}

func cmdCheck(argv []string) int {
	fs := flag.NewFlagSet("check", flag.ExitOnError)
	prop := fs.String("prop", "", "property id")
	tier := fs.String("tier", "quick", "quick|thorough")
	repo := fs.String("repo", "/repo", "repository root")
	spec := fs.String("spec", "/verif/spec", "spec directory")
	out := fs.String("out", "", "evidence file")
	replays := fs.String("replays", "", "replay directory")
	fnre := fs.String("fn", "", "only functions matching this regexp")
	verbose := fs.Bool("v", false, "verbose")
	keep := fs.String("keep", "", "keep SMT files in this directory")
	timeoutS := fs.Int("timeout", 0, "per-obligation timeout in seconds")
	seed := fs.Int("seed", 0, "seed (only recorded; the check is deterministic)")
	known := fs.String("known", "", "known findings file")
	noReplay := fs.Bool("noreplay", false, "skip counterexample replay")
	_ = seed
	fs.Parse(argv)
	t0 := time.Now()

	contracts, _, _, err := loadContracts(*repo, *spec)
	if err != nil {
		fmt.Fprintln(os.Stderr, "contracts:", err)
		return 2
	}
	var sel []*Contract
	var re *regexp.Regexp
	if *fnre != "" {
		re = regexp.MustCompile(*fnre)
	}
	pkgset := map[string]bool{}
	for _, c := range contracts {
		if c.Extern || c.Assumed {
			continue
		}
		ok := false
		for _, p := range c.Props {
			if p == *prop {
				ok = true
			}
		}
		if *prop == "" {
			ok = true
		}
		if ok && (re == nil || re.MatchString(c.Key)) {
			sel = append(sel, c)
			if !c.Lemma {
				pkgset[c.Pkg] = true
			}
		}
	}
	sort.Slice(sel, func(i, j int) bool { return sel[i].Key < sel[j].Key })
	if len(sel) == 0 {
		fmt.Fprintln(os.Stderr, "no contracts selected")
		return 2
	}
	var patterns []string
	for p := range pkgset {
		patterns = append(patterns, p)
	}
	sort.Strings(patterns)
	eng, err := newEngine(*repo, *spec, patterns)
	if err != nil {
		fmt.Fprintln(os.Stderr, "load:", err)
		return 2
	}
	tload := time.Since(t0)
	kf := loadKnown(*known)
	eng.known = kf
	eng.prop = *prop
	var vcs []*VC
	var missing []string
	done := map[string]bool{}
	work := append([]*Contract{}, sel...)
	for len(work) > 0 {
		c := work[0]
		work = work[1:]
		if done[c.Key] {
			continue
		}
		done[c.Key] = true
		if c.Lemma {
			vcs = append(vcs, eng.verifyLemma(c))
			continue
		}
		fn := eng.funcs[c.Key]
		if fn == nil {
			missing = append(missing, c.Key)
			continue
		}
		vc := eng.verifyFunc(fn, c)
		vcs = append(vcs, vc)
		// callee closure: a property is only as good as the contracts its functions rely on, so every
		// verified (non-assumed) contract used at a call site is checked under this property too
		if re == nil {
			var ks []string
			for k := range vc.used {
				ks = append(ks, k)
			}
			sort.Strings(ks)
			for _, k := range ks {
				uc := eng.contracts[k]
				if uc == nil {
					uc = eng.contracts[k+"@value"]
				}
				if uc == nil || uc.Extern || uc.Assumed || uc.Iface || done[uc.Key] {
					continue
				}
				if uc.Lemma || eng.funcs[uc.Key] != nil {
					work = append(work, uc)
				}
			}
		}
	}
	tmp := *keep
	if tmp == "" {
		tmp, _ = os.MkdirTemp("", "govc")
		defer os.RemoveAll(tmp)
	} else {
		os.MkdirAll(tmp, 0o755)
	}
	to := 15 * time.Second
	if *tier == "thorough" {
		to = 60 * time.Second
	}
	if *timeoutS > 0 {
		to = time.Duration(*timeoutS) * time.Second
	}
	eng.discharge(vcs, runOpts{timeout: to, all: *tier == "thorough", tmpdir: tmp, workers: 8})

	rep := summarize(eng, vcs, missing, *prop, *tier, *verbose)
	rep.WallS = time.Since(t0).Seconds()
	rep.LoadS = tload.Seconds()
	code := report(eng, rep, *prop, *out, *replays, *tier, kf, tmp, *noReplay)
	return code
}

type FailRec struct {
	Obligation string        `json:"obligation"`
	Answer     string        `json:"answer"`
	Solver     string        `json:"solver"`
	Output     string        `json:"solver_output,omitempty"`
	Fn         string        `json:"function"`
	Kind       string        `json:"kind"`
	Replay     *ReplayResult `json:"replay,omitempty"`
	Model      map[T]string  `json:"model,omitempty"`
	Known      string        `json:"known_finding,omitempty"`
	vc         *VC
	o          *Obligation
}

type Report struct {
	Funcs         []string
	Obligations   int
	Discharged    int
	Covers        int
	CoversOK      int
	Fails         []*FailRec
	Errors        []string
	Assumes       []string
	Samples       []map[string]interface{}
	WallS         float64
	LoadS         float64
	SolverS       float64
	UsedContracts []string
	KnownSeen     []string
}

func summarize(eng *Engine, vcs []*VC, missing []string, prop, tier string, verbose bool) *Report {
	r := &Report{}
	asm := map[string]bool{}
	used := map[string]bool{}
	for _, m := range missing {
		r.Errors = append(r.Errors, "function under contract not found in the program: "+m)
		r.Fails = append(r.Fails, &FailRec{Obligation: m + "#exists", Answer: "missing", Fn: m, Kind: "exists"})
	}
	for _, vc := range vcs {
		r.Funcs = append(r.Funcs, vc.con.Key)
		for _, e := range vc.errs {
			r.Errors = append(r.Errors, vc.con.Key+": "+e)
		}
		if len(vc.errs) > 0 {
			r.Fails = append(r.Fails, &FailRec{Obligation: vc.con.Key + "#translate", Answer: "untranslatable", Output: strings.Join(vc.errs, "\n"), Fn: vc.con.Key, Kind: "translate"})
		}
		for a := range vc.assumes {
			asm[a] = true
		}
		for u := range vc.used {
			used[u] = true
		}
		for _, ax := range eng.preludeAxiomsUsed(vc.preludeUsed) {
			asm["prelude axiom: "+ax] = true
		}
		n := 0
		for _, o := range vc.obls {
			if o.Expect == "sat" {
				r.Covers++
				if o.Answer == "sat" || o.Answer == "unknown" || o.Answer == "timeout" {
					r.CoversOK++
				} else {
					r.Fails = append(r.Fails, &FailRec{Obligation: o.Name, Answer: "vacuous(" + o.Answer + ")", Solver: o.Solver, Fn: o.Fn, Kind: o.Kind, Output: o.Output})
				}
				if verbose {
					fmt.Printf("  cover:%-8s %-11s %5dms %s\n", o.Answer, o.Solver, o.Ms, o.Name)
				}
				continue
			}
			n++
			r.Obligations++
			r.SolverS += float64(o.Ms) / 1000
			if o.Answer == "unsat" {
				r.Discharged++
				if len(r.Samples) < 3 && o.Solver != "syntactic" {
					r.Samples = append(r.Samples, map[string]interface{}{"obligation": o.Name, "smt_bytes": o.Bytes, "answer": o.Answer, "solver": o.Solver, "ms": o.Ms})
				}
			} else {
				r.Fails = append(r.Fails, &FailRec{Obligation: o.Name, Answer: o.Answer, Solver: o.Solver, Output: tail(o.Output, 1500), Fn: o.Fn, Kind: o.Kind, vc: vc, o: o})
			}
			if verbose {
				fmt.Printf("  %-8s %-11s %5dms %s\n", o.Answer, o.Solver, o.Ms, o.Name)
			}
		}
		if verbose {
			fmt.Printf("  returns[%s]: %s\n", vc.con.Key, strings.Join(vc.retLines, " "))
			if len(vc.panicWhat) > 0 {
				fmt.Printf("  panics[%s]: %s\n", vc.con.Key, strings.Join(vc.panicWhat, "; "))
			}
			for a := range vc.assumes {
				fmt.Printf("  assume[%s]: %s\n", vc.con.Key, a)
			}
		}
		if n == 0 {
			r.Errors = append(r.Errors, vc.con.Key+": no obligations generated")
			r.Fails = append(r.Fails, &FailRec{Obligation: vc.con.Key + "#nonempty", Answer: "no-obligations", Fn: vc.con.Key, Kind: "vacuity"})
		}
	}
	r.Assumes = []string{}
	r.UsedContracts = []string{}
	for a := range asm {
		r.Assumes = append(r.Assumes, a)
	}
	sort.Strings(r.Assumes)
	for u := range used {
		r.UsedContracts = append(r.UsedContracts, u)
	}
	sort.Strings(r.UsedContracts)
	return r
}

func report(eng *Engine, r *Report, prop, out, replays, tier string, kf *KnownFile, tmpdir string, noReplay bool) int {
	code := 0
	if replays != "" {
		os.MkdirAll(replays, 0o755)
	}
	var lines []string
	nviol := 0
	for _, f := range r.Fails {
		known := kf.lookup(prop, f.Obligation)
		if f.Answer == "sat" && f.vc != nil && !noReplay {
			if f.vc.fn == nil {
				if vals, err := f.vc.getValues(f.o, f.o.Extra, tmpdir); err == nil {
					f.Model = vals
				}
			} else {
				f.Replay = eng.replayFunction(f.vc, f.o, tmpdir)
			}
		}
		if f.vc != nil && !noReplay && (f.Replay == nil || !f.Replay.Confirmed) && f.Answer != "unsat" {
			if tmpl := scenarioFor(eng, f.Obligation); tmpl != "" {
				if sr := eng.replayTemplate(tmpl, map[T]string{}, tmpdir, f.Obligation); sr.Attempted {
					if sr.Confirmed || f.Replay == nil {
						f.Replay = sr
					}
				}
			}
		}
		if known != nil {
			ok := true
			why := ""
			if f.Answer == "sat" && f.Model != nil {
				if !f.vc.inWitnessClass(f.o, known.WitnessClass, f.Model, tmpdir) {
					ok, why = false, "counterexample outside the recorded witness class"
				}
				if ok && known.Replay != "" && !noReplay {
					f.Replay = eng.replayTemplate(known.Replay, f.Model, tmpdir, f.Obligation)
					if !f.Replay.Confirmed {
						ok, why = false, "recorded finding does not reproduce on the real code: "+f.Replay.Why
					}
				}
			}
			if ok && known.ClassSpec != "" && !noReplay && (f.Replay == nil || !f.Replay.Confirmed) {
				ok, why = false, "recorded finding does not reproduce on the real code"
			}
			if ok {
				f.Known = known.ID
				r.KnownSeen = append(r.KnownSeen, known.ID+": "+f.Obligation)
				r.Obligations--
				msg := known.What
				if f.Replay != nil && f.Replay.Confirmed {
					msg += " [re-derived and replayed on the real code: " + f.Replay.Why + "]"
				} else if f.Answer != "sat" {
					msg += " [obligation undischarged (" + f.Answer + "); no fresh model this run]"
				}
				lines = append(lines, fmt.Sprintf("KNOWN-FINDING: property=%s %s: %s", prop, known.ID, msg))
				if replays != "" {
					b, _ := json.MarshalIndent(f, "", " ")
					os.WriteFile(filepath.Join(replays, sanitize(f.Obligation)+".json"), b, 0o644)
				}
				continue
			}
			f.Known = known.ID + " (NOT suppressed: " + why + ")"
		}
		code = 1
		nviol++
		path := ""
		if replays != "" {
			path = filepath.Join(replays, sanitize(f.Obligation)+".json")
			b, _ := json.MarshalIndent(f, "", " ")
			os.WriteFile(path, b, 0o644)
		}
		lines = append(lines, fmt.Sprintf("FAILED %s answer=%s solver=%s", f.Obligation, f.Answer, f.Solver))
		if f.Replay != nil && f.Replay.Confirmed {
			lines = append(lines, fmt.Sprintf("  replayed on the real code: %s; inputs %v", f.Replay.Why, f.Replay.Inputs))
			lines = append(lines, fmt.Sprintf("VIOLATION property=%s replay=%s", prop, path))
		} else {
			if f.Replay != nil {
				lines = append(lines, "  replay: "+f.Replay.Why)
			}
			lines = append(lines, fmt.Sprintf("VIOLATION property=%s replay=%s no-failing-input-found", prop, path))
		}
	}
	fmt.Printf("govc: property=%s tier=%s functions=%d obligations=%d discharged=%d covers=%d/%d known-findings=%d wall=%.1fs (load %.1fs, solver %.1fs)\n",
		prop, tier, len(r.Funcs), r.Obligations, r.Discharged, r.CoversOK, r.Covers, len(r.KnownSeen), r.WallS, r.LoadS, r.SolverS)
	for _, e := range r.Errors {
		fmt.Println("ERROR:", e)
	}
	for _, l := range lines {
		fmt.Println(l)
	}
	if out != "" {
		if r.KnownSeen == nil {
			r.KnownSeen = []string{}
		}
		if r.Samples == nil {
			r.Samples = []map[string]interface{}{}
		}
		ev := map[string]interface{}{
			"property_id": prop, "tier": tier, "seed": 0, "level": "proof", "wall_s": r.WallS, "violations": nviol,
			"coverage": map[string]interface{}{
				"obligations": r.Obligations, "discharged": r.Discharged,
				"checker_cmd":                  "govc check -prop " + prop + " -tier " + tier,
				"functions_under_contract":     r.Funcs,
				"per_solver":                   solverStats,
				"vacuity":                      map[string]int{"covers": r.Covers, "covers_ok": r.CoversOK},
				"samples":                      r.Samples,
				"trusted_base":                 append([]string{"go/ssa + govc SSA->SMT translation", "SMT solvers"}, r.Assumes...),
				"contracts_used_at_call_sites": r.UsedContracts,
				"known_findings_seen":          r.KnownSeen,
				"solver_time_s":                r.SolverS,
			},
			"assumptions": append([]string{"go/ssa construction and the SSA->SMT translation of govc", "solver soundness (z3 4.8.12, z3 5.1.0, cvc5 1.0 raced)", "Go memory safety; well-typed initial heap"}, r.Assumes...),
		}
		b, _ := json.MarshalIndent(ev, "", " ")
		os.MkdirAll(filepath.Dir(out), 0o755)
		os.WriteFile(out, b, 0o644)
	}
	return code
}

// cmdReplay re-runs the recorded replay test of a violation file against /repo's current tree.
func cmdReplay(argv []string) int {
	fs := flag.NewFlagSet("replay", flag.ExitOnError)
	prop := fs.String("prop", "", "property id")
	file := fs.String("file", "", "replay file written by a failed check")
	repo := fs.String("repo", "/repo", "repository root")
	fs.Parse(argv)
	b, err := os.ReadFile(*file)
	if err != nil {
		fmt.Fprintln(os.Stderr, err)
		return 2
	}
	var f FailRec
	if err := json.Unmarshal(b, &f); err != nil {
		fmt.Fprintln(os.Stderr, err)
		return 2
	}
	fmt.Printf("property=%s obligation=%s answer=%s solver=%s\n", *prop, f.Obligation, f.Answer, f.Solver)
	if f.Replay == nil || f.Replay.TestSrc == "" {
		fmt.Println("no replayable input was recorded for this obligation (no-failing-input-found); solver output:")
		fmt.Println(f.Output)
		return 1
	}
	tmp, _ := os.MkdirTemp("", "govcreplay")
	defer os.RemoveAll(tmp)
	tp := filepath.Join(tmp, "replay_test.go")
	os.WriteFile(tp, []byte(f.Replay.TestSrc), 0o644)
	out, _ := runOverlayTest(*repo, filepath.Join(*repo, f.Replay.PkgDir), tp, "TestGovcReplay", tmp)
	fmt.Println("inputs:", f.Replay.Inputs)
	fmt.Println("recorded verdict:", f.Replay.Why, "| clause:", f.Replay.Clause)
	fmt.Println("--- output of the real code now:")
	fmt.Println(out)
	if f.Replay.Confirmed {
		fmt.Printf("VIOLATION property=%s replay=%s\n", *prop, *file)
		return 1
	}
	return 0
}

type scenarioFile struct {
	Scenarios []struct {
		Obligation string `json:"obligation"`
		Template   string `json:"template"`
	} `json:"scenarios"`
}

// scenarioFor: the scenario replay registered for an obligation name, if any.
func scenarioFor(eng *Engine, obl string) string {
	b, err := os.ReadFile(filepath.Join(filepath.Dir(eng.specDir), "replay", "scenarios.json"))
	if err != nil {
		return ""
	}
	var sf scenarioFile
	if json.Unmarshal(b, &sf) != nil {
		return ""
	}
	for _, sc := range sf.Scenarios {
		if re, err := regexp.Compile(sc.Obligation); err == nil && re.MatchString(obl) {
			return sc.Template
		}
	}
	return ""
}

// cmdSweep: zero-annotation safety sweep. Every function of the given packages that has no contract gets the
// trivial one (no requires, ensures true, modifies everything, no declared panics) and is checked in the strict
// regime: every runtime panic (nil, bounds, slice range, division, type assertion) and every explicit panic
// reachable for well-typed arguments is listed. Loops without invariants are havocked. Output is a candidate
// list for triage, not a verdict.
func cmdSweep(argv []string) int {
	fs := flag.NewFlagSet("sweep", flag.ExitOnError)
	repo := fs.String("repo", "/repo", "repository root")
	spec := fs.String("spec", "/verif/spec", "spec directory")
	pkgs := fs.String("pkgs", "", "comma separated package paths relative to the module")
	fnre := fs.String("fn", "", "only functions matching this regexp")
	timeoutS := fs.Int("timeout", 5, "solver timeout")
	fs.Parse(argv)
	var patterns []string
	for _, p := range strings.Split(*pkgs, ",") {
		patterns = append(patterns, repoMod+"/"+strings.TrimSpace(p))
	}
	eng, err := newEngine(*repo, *spec, patterns)
	if err != nil {
		fmt.Fprintln(os.Stderr, "load:", err)
		return 2
	}
	eng.sweep = true
	var re *regexp.Regexp
	if *fnre != "" {
		re = regexp.MustCompile(*fnre)
	}
	var keys []string
	for k, fn := range eng.funcs {
		if fn.Pkg == nil || len(fn.Blocks) == 0 || fn.Synthetic != "" {
			continue
		}
		in := false
		for _, p := range patterns {
			if fn.Pkg.Pkg.Path() == p {
				in = true
			}
		}
		if !in || eng.contracts[k] != nil || eng.contracts[k+"@value"] != nil || strings.Contains(k, "$") || strings.HasSuffix(k, ".init") {
			continue
		}
		if re != nil && !re.MatchString(k) {
			continue
		}
		keys = append(keys, k)
	}
	sort.Strings(keys)
	tmp, _ := os.MkdirTemp("", "govcsweep")
	defer os.RemoveAll(tmp)
	for _, k := range keys {
		fn := eng.funcs[k]
		c := &Contract{Key: k, Pkg: fn.Pkg.Pkg.Path(), ModAll: true, ModeSet: true, Mode: HeapMode}
		for i, p := range fn.Params {
			if i == 0 && fn.Signature.Recv() != nil {
				c.Recv = p.Name()
				continue
			}
			c.Params = append(c.Params, p.Name())
		}
		var vc *VC
		func() {
			defer func() {
				if r := recover(); r != nil {
					fmt.Printf("SWEEP %s: engine error: %v\n", k, r)
					vc = nil
				}
			}()
			vc = eng.verifyFunc(fn, c)
		}()
		if vc == nil {
			continue
		}
		eng.discharge([]*VC{vc}, runOpts{timeout: time.Duration(*timeoutS) * time.Second, tmpdir: tmp, workers: 8})
		var bad []string
		for _, o := range vc.obls {
			if o.Expect == "sat" || o.Answer == "unsat" {
				continue
			}
			if o.Kind == "safe" || o.Kind == "panic" {
				bad = append(bad, fmt.Sprintf("%s(%s)", strings.TrimPrefix(o.Name, vc.fnName()+"#"), o.Answer))
			}
		}
		status := "clean"
		if len(vc.errs) > 0 {
			status = "untranslatable: " + vc.errs[0]
		}
		if len(bad) > 0 {
			status = strings.Join(bad, " ")
		}
		pos := fn.Prog.Fset.Position(fn.Pos())
		if hasLoops(fn) {
			status += "   (has loops: havocked without invariants, bounds findings unreliable)"
		}
		fmt.Printf("SWEEP %s [%s:%d]: %s\n", k, filepath.Base(pos.Filename), pos.Line, status)
	}
	return 0
}
