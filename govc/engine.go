package main

import (
	"fmt"
	"go/types"
	"os"
	"path/filepath"
	"sort"
	"strings"
	"sync"
	"time"

	"golang.org/x/tools/go/packages"
	"golang.org/x/tools/go/ssa"
	"golang.org/x/tools/go/ssa/ssautil"
)

type preludeFunc struct {
	Name string
	Args []string
	Ret  string
}

type preludeItem struct {
	Text    string
	Defines []string
	Uses    []string
	IsAxiom bool
	File    string
	Name    string // :named label of an axiom, if any
}

type Engine struct {
	repo          string
	specDir       string
	prog          *ssa.Program
	pkgs          []*packages.Package
	contracts     map[string]*Contract
	files         []*ContractFile
	ghosts        []GhostDecl
	funcs         map[string]*ssa.Function
	typesPkg      map[string]*types.Package
	preludeFuncs  map[string]*preludeFunc
	preludeSorts  map[string]bool
	preludeItems  []*preludeItem
	ghostElemType map[string]types.Type
	nativeExterns map[string]func(fr *frame, args []SV, cur *State, rtyp types.Type) SV
	ghostSafeList []string
	invariants    map[string]*Invariant
	baseFuncs     []string
	funcAlias     map[*ssa.Global]*ssa.Function
	known         *KnownFile
	guards        map[string]*GuardDecl // "pkgpath.Type" -> guard
	libState      map[string]map[string]bool // package path -> heap names that are library-private state
	prop          string
	sweep         bool // zero-annotation sweep: loops without invariants are tolerated
	mu            sync.Mutex
}

func (e *Engine) ghostSafe(key string) bool {
	for _, p := range e.ghostSafeList {
		if strings.HasPrefix(key, p) {
			return true
		}
	}
	return false
}

func (e *Engine) markPrelude(vc *VC, name string) {
	vc.preludeUsed[name] = true
}

func newEngine(repo, specDir string, patterns []string) (*Engine, error) {
	e := &Engine{repo: repo, specDir: specDir, funcs: map[string]*ssa.Function{}, typesPkg: map[string]*types.Package{},
		preludeFuncs: map[string]*preludeFunc{}, preludeSorts: map[string]bool{}, ghostElemType: map[string]types.Type{},
		nativeExterns: map[string]func(fr *frame, args []SV, cur *State, rtyp types.Type) SV{},
		ghostSafeList: []string{"types.Subspace.Get", "*types.Subspace.Get", "types.Subspace.Has"}}
	// sync.Mutex: the mutex word is 0 (unlocked) or 1 (locked). Lock on a held mutex deadlocks and Unlock of a
	// free one is a fatal error: both are obligations (also in the lenient regime: they are not recoverable panics).
	for _, rw := range []string{"Mutex", "RWMutex"} {
		rw := rw
		e.nativeExterns["*sync."+rw+".Lock"] = func(fr *frame, args []SV, cur *State, rtyp types.Type) SV {
			vc := fr.vc
			loc := vc.locOf(args[0])
			vc.oblige("safe", fmt.Sprintf("lock%d.free", vc.count("lock")), fr.g, eq(vc.loadLoc(cur, loc), "0"))
			vc.storeLoc(cur, loc, "1")
			vc.assumes["sync."+rw+" modelled as a 0/1 word owned by the executing goroutine (sequential lock discipline; no scheduler model)"] = true
			return SV{t: "0", typ: rtyp}
		}
		e.nativeExterns["*sync."+rw+".Unlock"] = func(fr *frame, args []SV, cur *State, rtyp types.Type) SV {
			vc := fr.vc
			loc := vc.locOf(args[0])
			vc.oblige("safe", fmt.Sprintf("unlock%d.held", vc.count("unlock")), fr.g, eq(vc.loadLoc(cur, loc), "1"))
			vc.storeLoc(cur, loc, "0")
			return SV{t: "0", typ: rtyp}
		}
	}
	// os.Exit / log.Fatal end the process: nothing can recover from them (unlike a panic, which baseapp's runTx
	// recovers), so reaching one is an obligation of its own unless the contract says `may_exit` (start-up code).
	for _, name := range []string{"os.Exit", "log.Fatal", "log.Fatalf", "log.Fatalln"} {
		e.nativeExterns[name] = func(fr *frame, args []SV, cur *State, rtyp types.Type) SV {
			vc := fr.vc
			if vc.con == nil || !vc.con.MayExit {
				vc.oblige("safe", fmt.Sprintf("exit%d.unreachable", vc.count("exit")), fr.g, tFalse)
			}
			vc.assumes["os.Exit / log.Fatal end the path (process termination)"] = true
			fr.g = tFalse
			return fr.zeroResult(rtyp)
		}
	}
	var err error
	e.contracts, e.ghosts, e.files, err = loadContracts(repo, specDir)
	if err != nil {
		return nil, err
	}
	e.invariants = map[string]*Invariant{}
	e.guards = map[string]*GuardDecl{}
	e.libState = map[string]map[string]bool{}
	for _, cf := range e.files {
		for _, h := range cf.LibState {
			if e.libState[cf.Pkg] == nil {
				e.libState[cf.Pkg] = map[string]bool{}
			}
			e.libState[cf.Pkg][h] = true
		}
	}
	for _, cf := range e.files {
		for i := range cf.Guards {
			g := &cf.Guards[i]
			e.guards[g.Pkg+"."+g.Type] = g
		}
	}
	for _, cf := range e.files {
		for _, inv := range cf.Invariants {
			if prev, dup := e.invariants[inv.Name]; dup && prev != inv {
				return nil, fmt.Errorf("duplicate invariant name %s (invariant names are global)", inv.Name)
			}
			e.invariants[inv.Name] = inv
		}
	}
	if err := e.loadPrelude(); err != nil {
		return nil, err
	}
	cfg := &packages.Config{Mode: packages.LoadAllSyntax, Dir: repo, BuildFlags: []string{"-tags=verif"},
		Env: append(os.Environ(), "GOFLAGS=-mod=mod", "GOPROXY=off", "GOSUMDB=off", "GOTOOLCHAIN=local")}
	pkgs, err := packages.Load(cfg, patterns...)
	if err != nil {
		return nil, err
	}
	nerr := 0
	packages.Visit(pkgs, nil, func(p *packages.Package) {
		for _, er := range p.Errors {
			if strings.HasPrefix(p.PkgPath, repoMod) {
				fmt.Fprintf(os.Stderr, "load error: %s: %v\n", p.PkgPath, er)
				nerr++
			}
		}
	})
	if nerr > 0 {
		return nil, fmt.Errorf("%d package load errors", nerr)
	}
	prog, _ := ssautil.AllPackages(pkgs, ssa.InstantiateGenerics)
	for _, sp := range prog.AllPackages() {
		if strings.HasPrefix(sp.Pkg.Path(), repoMod) {
			sp.SetDebugMode(true) // DebugRef: source names of loop-invariant values for loop invariants
		}
	}
	prog.Build()
	e.prog = prog
	e.pkgs = pkgs
	for _, p := range prog.AllPackages() {
		e.typesPkg[p.Pkg.Path()] = p.Pkg
	}
	for fn := range ssautil.AllFunctions(prog) {
		if fn.Pkg == nil || fn.Synthetic != "" {
			continue
		}
		e.funcs[funcKey(fn)] = fn
	}
	// package-level function aliases (var X = pkg.F), assigned once in the package initialiser
	e.funcAlias = map[*ssa.Global]*ssa.Function{}
	for _, sp := range prog.AllPackages() {
		if !strings.HasPrefix(sp.Pkg.Path(), repoMod) {
			continue
		}
		init := sp.Func("init")
		if init == nil {
			continue
		}
		count := map[*ssa.Global]int{}
		for _, b := range init.Blocks {
			for _, ins := range b.Instrs {
				st, ok := ins.(*ssa.Store)
				if !ok {
					continue
				}
				g, ok := st.Addr.(*ssa.Global)
				if !ok {
					continue
				}
				count[g]++
				v := st.Val
				if ct, ok := v.(*ssa.ChangeType); ok {
					v = ct.X
				}
				if f, ok := v.(*ssa.Function); ok {
					e.funcAlias[g] = f
				}
			}
		}
		for g, n := range count {
			if n != 1 {
				delete(e.funcAlias, g)
			}
		}
	}
	return e, nil
}

// expandGhostSort replaces $path.Type by the value-mode sort of that Go type.
func (e *Engine) expandGhostSort(vc *VC, srt string) string {
	out := srt
	for _, tok := range sortAtoms(srt) {
		if !strings.HasPrefix(tok, "$") {
			continue
		}
		var t types.Type
		if strings.HasPrefix(tok, "$[]") {
			t = e.parseGoType(tok[1:]) // a slice type: $[]byte
		} else {
			t = e.lookupType(tok[1:])
		}
		if t == nil {
			return "" // type not loaded in this run
		}
		s := vc.sortOf(t)
		out = strings.Replace(out, tok, s, -1)
		e.mu.Lock()
		e.ghostElemType[s] = t
		e.mu.Unlock()
	}
	return out
}

func (e *Engine) lookupType(q string) types.Type {
	i := strings.LastIndex(q, ".")
	if i < 0 {
		return nil
	}
	path, name := q[:i], q[i+1:]
	for _, cand := range []string{repoMod + "/" + path, path} {
		if p := e.typesPkg[cand]; p != nil {
			if obj := p.Scope().Lookup(name); obj != nil {
				return obj.Type()
			}
		}
	}
	return nil
}

// ---------------------------------------------------------------- prelude

func (e *Engine) loadPrelude() error {
	// functions of the built-in base prelude
	if sxs, err := parseSx(basePrelude); err == nil {
		for _, sx := range sxs {
			if !sx.IsList || len(sx.List) < 4 {
				continue
			}
			switch sx.List[0].Atom {
			case "declare-fun":
				pf := &preludeFunc{Name: sx.List[1].Atom, Ret: sx.List[3].String()}
				for _, a := range sx.List[2].List {
					pf.Args = append(pf.Args, a.String())
				}
				e.preludeFuncs[pf.Name] = pf
			case "define-fun":
				pf := &preludeFunc{Name: sx.List[1].Atom, Ret: sx.List[3].String()}
				for _, a := range sx.List[2].List {
					pf.Args = append(pf.Args, a.List[1].String())
				}
				e.preludeFuncs[pf.Name] = pf
			}
		}
	}
	files, _ := filepath.Glob(filepath.Join(e.specDir, "prelude", "*.smt2"))
	sort.Strings(files)
	known := map[string]bool{}
	for name := range e.preludeFuncs {
		known[name] = true // base prelude functions count for axiom selection
		e.baseFuncs = append(e.baseFuncs, name)
	}
	var all []*preludeItem
	for _, f := range files {
		data, err := os.ReadFile(f)
		if err != nil {
			return err
		}
		sxs, err := parseSx(string(data))
		if err != nil {
			return fmt.Errorf("%s: %v", f, err)
		}
		for _, sx := range sxs {
			if !sx.IsList || len(sx.List) == 0 {
				continue
			}
			it := &preludeItem{Text: sx.String(), File: filepath.Base(f)}
			head := sx.List[0].Atom
			switch head {
			case "declare-fun":
				pf := &preludeFunc{Name: sx.List[1].Atom, Ret: sx.List[3].String()}
				for _, a := range sx.List[2].List {
					pf.Args = append(pf.Args, a.String())
				}
				e.preludeFuncs[pf.Name] = pf
				it.Defines = []string{pf.Name}
			case "declare-const":
				pf := &preludeFunc{Name: sx.List[1].Atom, Ret: sx.List[2].String()}
				e.preludeFuncs[pf.Name] = pf
				it.Defines = []string{pf.Name}
			case "define-fun", "define-fun-rec":
				pf := &preludeFunc{Name: sx.List[1].Atom, Ret: sx.List[3].String()}
				for _, a := range sx.List[2].List {
					pf.Args = append(pf.Args, a.List[1].String())
				}
				e.preludeFuncs[pf.Name] = pf
				it.Defines = []string{pf.Name}
			case "declare-sort":
				e.preludeSorts[sx.List[1].Atom] = true
				it.Defines = []string{sx.List[1].Atom}
			case "declare-datatypes":
				for di, d := range sx.List[1].List {
					name := d.List[0].Atom
					e.preludeSorts[name] = true
					it.Defines = append(it.Defines, name)
					for _, ctor := range sx.List[2].List[di].List {
						if !ctor.IsList {
							e.preludeFuncs[ctor.Atom] = &preludeFunc{Name: ctor.Atom, Ret: name}
							it.Defines = append(it.Defines, ctor.Atom)
							continue
						}
						cf := &preludeFunc{Name: ctor.List[0].Atom, Ret: name}
						for _, acc := range ctor.List[1:] {
							cf.Args = append(cf.Args, acc.List[1].String())
							e.preludeFuncs[acc.List[0].Atom] = &preludeFunc{Name: acc.List[0].Atom, Args: []string{name}, Ret: acc.List[1].String()}
							it.Defines = append(it.Defines, acc.List[0].Atom)
						}
						e.preludeFuncs[cf.Name] = cf
						it.Defines = append(it.Defines, cf.Name)
					}
				}
			case "assert":
				it.IsAxiom = true
				// (assert (! body :named N))
				if b := sx.List[1]; b.IsList && len(b.List) >= 4 && b.List[0].Atom == "!" {
					for i := 2; i+1 < len(b.List); i += 2 {
						if b.List[i].Atom == ":named" {
							it.Name = b.List[i+1].Atom
						}
					}
				}
			default:
				continue
			}
			for _, d := range it.Defines {
				known[d] = true
			}
			all = append(all, it)
		}
	}
	for _, it := range all {
		seen := map[string]bool{}
		var walk func(s *Sx)
		walk = func(s *Sx) {
			if !s.IsList {
				if known[s.Atom] && !seen[s.Atom] {
					seen[s.Atom] = true
					it.Uses = append(it.Uses, s.Atom)
				}
				return
			}
			for _, c := range s.List {
				walk(c)
			}
		}
		sxs, _ := parseSx(it.Text)
		walk(sxs[0])
	}
	e.preludeItems = all
	return nil
}

// preludeText returns the prelude items needed for the used names: definitions
// transitively, and every axiom all of whose trigger names... (an axiom is included when it
// mentions at least one used name; the names it mentions are then pulled in too).
func (e *Engine) preludeText(used map[string]bool) string {
	return e.preludeTextOpt(used, true)
}

func (e *Engine) preludeTextOpt(used map[string]bool, axioms bool) string {
	inc := map[string]bool{}
	for k := range used {
		inc[k] = true
	}
	chosen := map[*preludeItem]bool{}
	for changed := true; changed; {
		changed = false
		for _, it := range e.preludeItems {
			if chosen[it] {
				continue
			}
			take := false
			if it.IsAxiom {
				for _, u := range it.Uses {
					if inc[u] && !e.preludeSorts[u] {
						take = true
					}
				}
			} else {
				for _, d := range it.Defines {
					if inc[d] {
						take = true
					}
				}
			}
			if take {
				chosen[it] = true
				changed = true
				for _, u := range it.Uses {
					inc[u] = true
				}
				for _, d := range it.Defines {
					inc[d] = true
				}
			}
		}
	}
	var sb strings.Builder
	for _, it := range e.preludeItems {
		if chosen[it] && (axioms || !it.IsAxiom || !strings.Contains(it.Text, "forall")) {
			sb.WriteString(it.Text)
			sb.WriteString("\n")
		}
	}
	return sb.String()
}

func (e *Engine) preludeAxiomsUsed(used map[string]bool) []string {
	txt := e.preludeText(used)
	var out []string
	for _, it := range e.preludeItems {
		if it.IsAxiom && strings.Contains(txt, it.Text) {
			n := it.Name
			if n == "" {
				n = it.Text
				if len(n) > 80 {
					n = n[:80] + "..."
				}
			}
			out = append(out, it.File+": "+n)
		}
	}
	return out
}

// ---------------------------------------------------------------- discharge

type runOpts struct {
	timeout time.Duration
	all     bool
	tmpdir  string
	workers int
}

func (e *Engine) discharge(vcs []*VC, opts runOpts) {
	type job struct {
		vc *VC
		o  *Obligation
	}
	var jobs []job
	for _, vc := range vcs {
		for _, o := range vc.obls {
			if o.Answer != "" {
				continue
			}
			jobs = append(jobs, job{vc, o})
		}
	}
	ch := make(chan job)
	failCount := map[*VC]int{}
	var wg sync.WaitGroup
	for w := 0; w < opts.workers; w++ {
		wg.Add(1)
		go func() {
			defer wg.Done()
			for j := range ch {
				q := j.vc.buildQuery(j.o)
				j.o.Bytes = len(q)
				to := opts.timeout
				// fail fast: once a function has many undischarged obligations the rest get a short budget
				e.mu.Lock()
				nf := failCount[j.vc]
				e.mu.Unlock()
				if nf >= 8 && to > 2*time.Second {
					to = 2 * time.Second
				}
				if j.o.Expect == "sat" {
					if to > 5*time.Second {
						to = 5 * time.Second
					}
				}
				if j.o.KnownID != "" && to > 4*time.Second {
					to = 4 * time.Second
				}
				if j.o.Witness != "" {
					qw := strings.Replace(q, "(check-sat)", "(assert "+j.o.Witness+")\n(check-sat)", 1)
					if rw := solve(qw, j.o.Name+".witness", 2*time.Second, false, opts.tmpdir, true); rw.Answer == "sat" {
						j.o.Answer, j.o.Solver, j.o.Ms, j.o.Output = "sat", rw.Solver+"@witness", rw.Ms, rw.Output
						continue
					}
				}
				r := solve(q, j.o.Name, to, opts.all && j.o.Expect != "sat", opts.tmpdir, j.o.Expect == "sat")
				j.o.Answer, j.o.Solver, j.o.Ms, j.o.Output = r.Answer, r.Solver, r.Ms, r.Output
				if j.o.Expect != "sat" && r.Answer != "unsat" {
					e.mu.Lock()
					failCount[j.vc]++
					e.mu.Unlock()
				}
				if j.o.Expect != "sat" && (r.Answer == "timeout" || r.Answer == "unknown") && nf < 8 {
					// case split: both halves must be discharged
					sto := to
					if sto > 6*time.Second {
						sto = 6 * time.Second
					}
					for si, c := range j.vc.splits {
						if si >= 4 {
							break
						}
						h1 := strings.Replace(q, "(check-sat)", "(assert "+c+")\n(check-sat)", 1)
						h2 := strings.Replace(q, "(check-sat)", "(assert (not "+c+"))\n(check-sat)", 1)
						r1 := solve(h1, fmt.Sprintf("%s.split%d.a", j.o.Name, si), sto, false, opts.tmpdir, false)
						if r1.Answer != "unsat" {
							continue
						}
						r2 := solve(h2, fmt.Sprintf("%s.split%d.b", j.o.Name, si), sto, false, opts.tmpdir, false)
						if r2.Answer == "unsat" {
							j.o.Answer, j.o.Solver, j.o.Ms = "unsat", "case-split", r.Ms+r1.Ms+r2.Ms
							break
						}
					}
				}
			}
		}()
	}
	for _, j := range jobs {
		ch <- j
	}
	close(ch)
	wg.Wait()
}

// parseGoType resolves a small type expression: []T, basic names, path.Name (path relative to the module).
func (e *Engine) parseGoType(q string) types.Type {
	if strings.HasPrefix(q, "[]") {
		el := e.parseGoType(q[2:])
		if el == nil {
			return nil
		}
		return types.NewSlice(el)
	}
	if strings.HasPrefix(q, "*") {
		el := e.parseGoType(q[1:])
		if el == nil {
			return nil
		}
		return types.NewPointer(el)
	}
	if obj := types.Universe.Lookup(q); obj != nil {
		if tn, ok := obj.(*types.TypeName); ok {
			return tn.Type()
		}
	}
	return e.lookupType(q)
}
