package main

// Parser for specification expressions.

import (
	"fmt"
	"strings"
	"unicode"
)

type Expr struct {
	Op   string // ident num str call index select unop binop quant old paren slice
	Name string // identifier / operator / field / quantifier kind
	Args []*Expr
	Vars [][2]string // quantifier variables: name, sort
	Pat  []*Expr     // optional triggers
}

type tok struct {
	k string // id num str op eof
	s string
}

func lexSpec(s string) ([]tok, error) {
	var out []tok
	i := 0
	for i < len(s) {
		c := s[i]
		switch {
		case c == ' ' || c == '\t':
			i++
		case unicode.IsLetter(rune(c)) || c == '_' || c == '$' || c == '#':
			j := i + 1
			for j < len(s) && (unicode.IsLetter(rune(s[j])) || unicode.IsDigit(rune(s[j])) || s[j] == '_' || s[j] == '$' || s[j] == '#') {
				j++
			}
			out = append(out, tok{"id", s[i:j]})
			i = j
		case c >= '0' && c <= '9':
			j := i + 1
			for j < len(s) && ((s[j] >= '0' && s[j] <= '9') || s[j] == '_') {
				j++
			}
			out = append(out, tok{"num", strings.Replace(s[i:j], "_", "", -1)})
			i = j
		case c == '"':
			j := i + 1
			for j < len(s) && s[j] != '"' {
				j++
			}
			if j >= len(s) {
				return nil, fmt.Errorf("unterminated string")
			}
			out = append(out, tok{"str", s[i+1 : j]})
			i = j + 1
		default:
			ops := []string{"<==>", "==>", "::", "==", "!=", "<=", ">=", "&&", "||", "..", "(", ")", "[", "]", "{", "}", "<", ">", "+", "-", "*", "/", "%", "!", ".", ",", ":", "^"}
			found := false
			for _, o := range ops {
				if strings.HasPrefix(s[i:], o) {
					out = append(out, tok{"op", o})
					i += len(o)
					found = true
					break
				}
			}
			if !found {
				return nil, fmt.Errorf("unexpected character %q", c)
			}
		}
	}
	out = append(out, tok{"eof", ""})
	return out, nil
}

type specParser struct {
	toks []tok
	pos  int
}

func parseSpec(s string) (*Expr, error) {
	toks, err := lexSpec(s)
	if err != nil {
		return nil, err
	}
	p := &specParser{toks: toks}
	e, err := p.expr()
	if err != nil {
		return nil, err
	}
	if p.peek().k != "eof" {
		return nil, fmt.Errorf("unexpected %q", p.peek().s)
	}
	return e, nil
}

func (p *specParser) peek() tok { return p.toks[p.pos] }
func (p *specParser) next() tok { t := p.toks[p.pos]; p.pos++; return t }
func (p *specParser) isOp(s string) bool {
	t := p.peek()
	return t.k == "op" && t.s == s
}
func (p *specParser) expect(s string) error {
	if !p.isOp(s) {
		return fmt.Errorf("expected %q, got %q", s, p.peek().s)
	}
	p.pos++
	return nil
}

func (p *specParser) expr() (*Expr, error) {
	t := p.peek()
	if t.k == "id" && (t.s == "forall" || t.s == "exists") {
		p.next()
		q := &Expr{Op: "quant", Name: t.s}
		for {
			n := p.next()
			if n.k != "id" {
				return nil, fmt.Errorf("quantifier variable expected")
			}
			srt := "int"
			if p.peek().k == "id" {
				srt = p.next().s
			}
			q.Vars = append(q.Vars, [2]string{n.s, srt})
			if p.isOp(",") {
				p.next()
				continue
			}
			break
		}
		if err := p.expect("::"); err != nil {
			return nil, err
		}
		if p.isOp("{") { // trigger
			p.next()
			for {
				e, err := p.expr()
				if err != nil {
					return nil, err
				}
				q.Pat = append(q.Pat, e)
				if p.isOp(",") {
					p.next()
					continue
				}
				break
			}
			if err := p.expect("}"); err != nil {
				return nil, err
			}
		}
		body, err := p.expr()
		if err != nil {
			return nil, err
		}
		q.Args = []*Expr{body}
		return q, nil
	}
	return p.iff()
}

func (p *specParser) iff() (*Expr, error) {
	l, err := p.imp()
	if err != nil {
		return nil, err
	}
	for p.isOp("<==>") {
		p.next()
		r, err := p.imp()
		if err != nil {
			return nil, err
		}
		l = &Expr{Op: "binop", Name: "<==>", Args: []*Expr{l, r}}
	}
	return l, nil
}

func (p *specParser) imp() (*Expr, error) {
	l, err := p.orE()
	if err != nil {
		return nil, err
	}
	if p.isOp("==>") {
		p.next()
		var r *Expr
		if t := p.peek(); t.k == "id" && (t.s == "forall" || t.s == "exists") {
			r, err = p.expr()
		} else {
			r, err = p.imp()
		}
		if err != nil {
			return nil, err
		}
		return &Expr{Op: "binop", Name: "==>", Args: []*Expr{l, r}}, nil
	}
	return l, nil
}

func (p *specParser) orE() (*Expr, error) {
	l, err := p.andE()
	if err != nil {
		return nil, err
	}
	for p.isOp("||") {
		p.next()
		r, err := p.andE()
		if err != nil {
			return nil, err
		}
		l = &Expr{Op: "binop", Name: "||", Args: []*Expr{l, r}}
	}
	return l, nil
}

func (p *specParser) andE() (*Expr, error) {
	l, err := p.cmp()
	if err != nil {
		return nil, err
	}
	for p.isOp("&&") {
		p.next()
		var r *Expr
		if t := p.peek(); t.k == "id" && (t.s == "forall" || t.s == "exists") {
			r, err = p.expr()
		} else {
			r, err = p.cmp()
		}
		if err != nil {
			return nil, err
		}
		l = &Expr{Op: "binop", Name: "&&", Args: []*Expr{l, r}}
	}
	return l, nil
}

func isCmp(s string) bool {
	switch s {
	case "==", "!=", "<", "<=", ">", ">=":
		return true
	}
	return false
}

func (p *specParser) cmp() (*Expr, error) {
	l, err := p.addE()
	if err != nil {
		return nil, err
	}
	var res *Expr
	for p.peek().k == "op" && isCmp(p.peek().s) {
		op := p.next().s
		r, err := p.addE()
		if err != nil {
			return nil, err
		}
		c := &Expr{Op: "binop", Name: op, Args: []*Expr{l, r}}
		if res == nil {
			res = c
		} else {
			res = &Expr{Op: "binop", Name: "&&", Args: []*Expr{res, c}}
		}
		l = r
	}
	if res != nil {
		return res, nil
	}
	return l, nil
}

func (p *specParser) addE() (*Expr, error) {
	l, err := p.mulE()
	if err != nil {
		return nil, err
	}
	for p.isOp("+") || p.isOp("-") {
		op := p.next().s
		r, err := p.mulE()
		if err != nil {
			return nil, err
		}
		l = &Expr{Op: "binop", Name: op, Args: []*Expr{l, r}}
	}
	return l, nil
}

func (p *specParser) mulE() (*Expr, error) {
	l, err := p.unary()
	if err != nil {
		return nil, err
	}
	for p.isOp("*") || p.isOp("/") || p.isOp("%") {
		op := p.next().s
		r, err := p.unary()
		if err != nil {
			return nil, err
		}
		l = &Expr{Op: "binop", Name: op, Args: []*Expr{l, r}}
	}
	return l, nil
}

func (p *specParser) unary() (*Expr, error) {
	if p.isOp("!") || p.isOp("-") {
		op := p.next().s
		x, err := p.unary()
		if err != nil {
			return nil, err
		}
		return &Expr{Op: "unop", Name: op, Args: []*Expr{x}}, nil
	}
	if p.isOp("*") { // explicit dereference
		p.next()
		x, err := p.unary()
		if err != nil {
			return nil, err
		}
		return &Expr{Op: "unop", Name: "*", Args: []*Expr{x}}, nil
	}
	return p.postfix()
}

func (p *specParser) postfix() (*Expr, error) {
	x, err := p.primary()
	if err != nil {
		return nil, err
	}
	for {
		switch {
		case p.isOp("."):
			p.next()
			n := p.next()
			if n.k != "id" {
				return nil, fmt.Errorf("field name expected after '.'")
			}
			x = &Expr{Op: "select", Name: n.s, Args: []*Expr{x}}
		case p.isOp("["):
			p.next()
			if p.isOp(":") {
				p.next()
				hi, err := p.expr()
				if err != nil {
					return nil, err
				}
				if err := p.expect("]"); err != nil {
					return nil, err
				}
				x = &Expr{Op: "slice", Args: []*Expr{x, nil, hi}}
				continue
			}
			i, err := p.expr()
			if err != nil {
				return nil, err
			}
			if p.isOp(":") {
				p.next()
				var hi *Expr
				if !p.isOp("]") {
					hi, err = p.expr()
					if err != nil {
						return nil, err
					}
				}
				if err := p.expect("]"); err != nil {
					return nil, err
				}
				x = &Expr{Op: "slice", Args: []*Expr{x, i, hi}}
				continue
			}
			if err := p.expect("]"); err != nil {
				return nil, err
			}
			x = &Expr{Op: "index", Args: []*Expr{x, i}}
		case p.isOp("("):
			p.next()
			var args []*Expr
			for !p.isOp(")") {
				a, err := p.expr()
				if err != nil {
					return nil, err
				}
				args = append(args, a)
				if p.isOp(",") {
					p.next()
				}
			}
			p.next()
			x = &Expr{Op: "call", Args: append([]*Expr{x}, args...)}
		default:
			return x, nil
		}
	}
}

func (p *specParser) primary() (*Expr, error) {
	t := p.next()
	switch t.k {
	case "num":
		return &Expr{Op: "num", Name: t.s}, nil
	case "str":
		return &Expr{Op: "str", Name: t.s}, nil
	case "id":
		if t.s == "old" && p.isOp("(") {
			p.next()
			e, err := p.expr()
			if err != nil {
				return nil, err
			}
			if err := p.expect(")"); err != nil {
				return nil, err
			}
			return &Expr{Op: "old", Args: []*Expr{e}}, nil
		}
		return &Expr{Op: "ident", Name: t.s}, nil
	case "op":
		if t.s == "(" {
			e, err := p.expr()
			if err != nil {
				return nil, err
			}
			if err := p.expect(")"); err != nil {
				return nil, err
			}
			return e, nil
		}
	}
	return nil, fmt.Errorf("unexpected %q", t.s)
}

func (e *Expr) String() string {
	if e == nil {
		return ""
	}
	switch e.Op {
	case "ident", "num":
		return e.Name
	case "str":
		return "\"" + e.Name + "\""
	case "select":
		return e.Args[0].String() + "." + e.Name
	case "index":
		return e.Args[0].String() + "[" + e.Args[1].String() + "]"
	case "call":
		var as []string
		for _, a := range e.Args[1:] {
			as = append(as, a.String())
		}
		return e.Args[0].String() + "(" + strings.Join(as, ", ") + ")"
	case "old":
		return "old(" + e.Args[0].String() + ")"
	case "unop":
		return e.Name + e.Args[0].String()
	case "binop":
		return "(" + e.Args[0].String() + " " + e.Name + " " + e.Args[1].String() + ")"
	case "quant":
		return e.Name + " ... :: " + e.Args[0].String()
	}
	return e.Op
}
