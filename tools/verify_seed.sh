#!/bin/bash
# tools/verify_seed.sh <seed-id> : confirm a seeded change in its scratch worktree /tmp/seedwt/<id>
# (1) patch applies to a clean checkout, (2) demo fails with patch, (3) demo passes without,
# (4) whole existing suite passes with the patch. Writes /tmp/seedout/<id>/confirm.txt
set -u
export GOFLAGS=-mod=mod GOPROXY=off GOSUMDB=off GOTOOLCHAIN=local
ID=$1; WT=/tmp/seedwt/$ID; OUT=/tmp/seedout/$ID
cd $WT || exit 2
DEMO=$(git status --porcelain | grep '^??' | awk '{print $2}' | grep '_test.go$' | head -1)
[ -z "$DEMO" ] && { echo "no demo test in worktree" > $OUT/confirm.txt; exit 1; }
PKG=./$(dirname $DEMO)
RUN=$(grep -oE 'func (Test[A-Za-z0-9_]+)' $DEMO | awk '{print $2}' | paste -sd'|')
git checkout -q -- . ; 
git apply --check $OUT/patch.diff || { echo "patch does not apply cleanly" > $OUT/confirm.txt; exit 1; }
r_orig=$(go test -vet=off -count=1 -run "^($RUN)\$" $PKG 2>&1 | tail -3)
echo "$r_orig" | grep -q '^ok' && orig=pass || orig=fail
git apply $OUT/patch.diff
r_pat=$(go test -vet=off -count=1 -run "^($RUN)\$" $PKG 2>&1 | tail -5)
echo "$r_pat" | grep -q '^ok' && pat=pass || pat=fail
mv $DEMO /tmp/seedout/$ID/.demo_hold
suite=$(go test -vet=off -count=1 ./... 2>&1 | grep -v '^ok\|no test files' | head -5)
mv /tmp/seedout/$ID/.demo_hold $DEMO
[ -z "$suite" ] && st=pass || st="fail: $suite"
echo "demo=$DEMO run=$RUN original=$orig patched=$pat suite_with_patch=$st" > $OUT/confirm.txt
cat $OUT/confirm.txt
[ "$orig" = pass ] && [ "$pat" = fail ] && [ "$st" = pass ]
