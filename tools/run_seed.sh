#!/bin/bash
# tools/run_seed.sh <seed-id> [props...]: apply /verif/seeded/<id>/patch.diff to /repo, run the checks of the
# property it breaks (or the listed ones), record what was reported, and undo the patch straight afterwards.
cd "$(dirname "$0")/.."
ID=$1; shift
D=seeded/$ID
PROPS="$@"; [ -z "$PROPS" ] && PROPS=$(python3 -c "import json;print(json.load(open('$D/meta.json'))['property'])")
[ -n "$(git -C /repo status --porcelain)" ] && { echo "refusing: /repo has uncommitted changes (they would be lost by the revert)"; exit 2; }
git -C /repo apply $PWD/$D/patch.diff || { echo "patch does not apply"; exit 2; }
SAVE=$(mktemp -d); cp evidence/*.json $SAVE/ 2>/dev/null
# evidence files describe the unchanged tree: whatever the seeded run writes is put back afterwards
trap 'git -C /repo checkout -- . >/dev/null 2>&1; cp $SAVE/*.json evidence/ 2>/dev/null; rm -rf $SAVE' EXIT
: > $D/result.txt
for P in $PROPS; do
  out=$(./check $P 2>&1); rc=$?
  echo "== ./check $P -> exit $rc" >> $D/result.txt
  echo "$out" | grep -E "^govc|^FAILED|replayed on|^VIOLATION" | cut -c1-300 >> $D/result.txt
done
cat $D/result.txt | head -12
