#!/usr/bin/env python3
"""Regenerates /verif/MANIFEST.json from tools/claims.json (one entry per property)."""
import json, os, sys
root = os.path.dirname(os.path.dirname(os.path.abspath(__file__)))
claims = json.load(open(os.path.join(root, "tools", "claims.json")))
props = [json.loads(l)["id"] for l in open(os.path.join(root, "properties.jsonl")) if l.strip()]
def hook_commits():
    """every /repo commit whose subject starts with 'verif' (comment-only contract files behind the build tag); falls
    back to the list recorded in claims.json when /repo has no git history at hand"""
    import subprocess
    try:
        log = subprocess.run(["git", "-C", "/repo", "log", "--format=%h %s"], capture_output=True, text=True, check=True).stdout.splitlines()
        hs = [l.split()[0] for l in log if l.split(" ", 1)[1].startswith("verif")]
        if hs:
            return list(reversed(hs))
    except Exception:
        pass
    return claims.get("_hook_commits", [])
checks, na = [], []
for pid in props:
    c = claims.get(pid)
    if not c or not c.get("claimed"):
        na.append({"property_id": pid, "reason": (c or {}).get("reason", "not claimed in the committed state: contracts for this property are not yet discharged by the engine")})
        continue
    checks.append({
        "property_id": pid,
        "quick_cmd": f"./check {pid} --tier quick",
        "thorough_cmd": f"./check {pid} --tier thorough",
        "evidence_file": f"/verif/evidence/{pid}.json",
        "replay_cmd_template": f"./check {pid} --replay {{path}}",
        "engine": "govc",
        "level_claimed": {"category": "proof", "text": c["text"], "design_ref": c.get("design_ref", "DESIGN.md §4")},
        "level_note": c["note"],
        "technique": c.get("technique", "contract-based deductive verification: weakest-precondition VCs generated from go/ssa of the real functions against //@ contracts, discharged by z3/cvc5"),
    })
m = {
    "version": 1,
    "setup_cmd": "cd /verif/govc && GOFLAGS=-mod=mod GOPROXY=off GOSUMDB=off GOTOOLCHAIN=local go build -o ../bin/govc .",
    "hooks": {
        "guard": "verif",
        "enable": "go/packages loads /repo with -tags=verif; the only guarded files are comment-only zz_contracts_verif.go contract files",
        "baseline_off_cmd": json.load(open("/root/.vp/BASELINE.json"))["cmd"],
        "source_commits": hook_commits(),
        "add_only": True,
    },
    "engines": [{"name": "govc", "path": "/verif/govc", "serves_properties": [c["property_id"] for c in checks],
                 "kind_free_text": "VC generator over go/ssa (x/tools v0.29.0) with contracts in //@ comments; obligations raced on z3 4.8.12, z3 5.1.0 and cvc5 1.0"}],
    "checks": checks,
    "not_applicable": na,
    "notes": claims.get("_notes", ""),
}
json.dump(m, open(os.path.join(root, "MANIFEST.json"), "w"), indent=1)
print("claimed:", [c["property_id"] for c in checks])
