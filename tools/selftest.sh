#!/bin/bash
# tools/selftest.sh [mutant-id ...]: must-fail corpus. Each mutant (a property-breaking edit that
# compiles) is applied to a scratch copy of /repo's current tree; the check restricted to the
# affected functions must exit 1 and name an obligation matching the recorded regex.
cd "$(dirname "$0")/.."
export GOFLAGS=-mod=mod GOPROXY=off GOSUMDB=off GOTOOLCHAIN=local
if [ "${1:-}" = "--prop" ]; then
  IDS=$(python3 -c "import json,sys;m=json.load(open('selftest/mutants/index.json'));print(' '.join(sorted(k for k,v in m.items() if v['property']==sys.argv[1])))" "$2")
  [ -z "$IDS" ] && { echo "selftest: caught=0 missed=0 skipped=0 (no mutants registered for $2)"; exit 0; }
else
  IDS="$@"; [ -z "$IDS" ] && IDS=$(python3 -c "import json;print(' '.join(sorted(json.load(open('selftest/mutants/index.json')))))")
fi
pass=0; fail=0; skip=0
for id in $IDS; do
  read PROP FN EXPECT <<<$(python3 -c "import json;m=json.load(open('selftest/mutants/index.json'))['$id'];print(m['property'],m['fn'] or '-',m['expect'])")
  T=$(mktemp -d /tmp/govc_mut.XXXXXX)
  rsync -a --exclude .git /repo/ $T/repo/
  if ! (cd $T/repo && patch -s -p1 < /verif/selftest/mutants/$id.patch); then echo "SKIP $id (patch no longer applies)"; skip=$((skip+1)); rm -rf $T; continue; fi
  if ! (cd $T/repo && go build ./... 2>$T/build.log); then echo "SKIP $id (mutant does not compile)"; skip=$((skip+1)); rm -rf $T; continue; fi
  if [ "$FN" = "-" ]; then
    # a seeded change: the whole check of the property (callee closure included)
    out=$(bin/govc check -prop $PROP -repo $T/repo -noreplay -known /verif/known_findings.json 2>&1); rc=$?
  else
    out=$(bin/govc check -prop $PROP -repo $T/repo -fn "$FN" -noreplay -known /verif/known_findings.json 2>&1); rc=$?
  fi
  if [ $rc -eq 1 ] && echo "$out" | grep -E "^FAILED .*($EXPECT)" >/dev/null; then echo "CAUGHT $id: $(echo "$out" | grep -E "^FAILED .*($EXPECT)" | head -1)"; pass=$((pass+1));
  else echo "MISSED $id (rc=$rc)"; echo "$out" | tail -3; fail=$((fail+1)); fi
  rm -rf $T
done
echo "selftest: caught=$pass missed=$fail skipped=$skip"
[ $fail -eq 0 ]
