#!/usr/bin/env python3
"""tools/mkmutant.py <id> <prop> <file> <fn-regex> <expect-regex> <old> <new>
Creates selftest/mutants/<id>.patch: a property-breaking edit (old -> new, first occurrence) of /repo/<file>,
and registers it in selftest/mutants/index.json with the obligation name (regex) that must fail."""
import sys, json, os, subprocess, tempfile, shutil
mid, prop, path, fnre, expect, old, new = sys.argv[1:8]
root = os.path.dirname(os.path.dirname(os.path.abspath(__file__)))
src = open(os.path.join("/repo", path)).read()
if src.count(old) < 1:
    sys.exit(f"pattern not found in {path}: {old!r}")
mut = src.replace(old, new, 1)
d = tempfile.mkdtemp()
a, b = os.path.join(d, "a"), os.path.join(d, "b")
os.makedirs(os.path.dirname(os.path.join(a, path))); os.makedirs(os.path.dirname(os.path.join(b, path)))
open(os.path.join(a, path), "w").write(src); open(os.path.join(b, path), "w").write(mut)
p = subprocess.run(["diff", "-u", os.path.join("a", path), os.path.join("b", path)], cwd=d, capture_output=True, text=True).stdout
shutil.rmtree(d)
open(os.path.join(root, "selftest", "mutants", mid + ".patch"), "w").write(p)
idx_path = os.path.join(root, "selftest", "mutants", "index.json")
idx = json.load(open(idx_path)) if os.path.exists(idx_path) else {}
idx[mid] = {"property": prop, "file": path, "fn": fnre, "expect": expect, "what": f"{old!r} -> {new!r}"}
json.dump(idx, open(idx_path, "w"), indent=1, sort_keys=True)
print("wrote", mid)
